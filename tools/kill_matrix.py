#!/usr/bin/env python3
"""Prints the kill matrix (markdown) from /verif/seeded/*/meta.json."""
import glob, json, os
rows = []
for mp in sorted(glob.glob('/verif/seeded/*/meta.json')):
    m = json.load(open(mp))
    notes = os.path.join(os.path.dirname(mp), 'notes.md')
    what = m.get('what') or m.get('needs') or ''
    if what.startswith('see notes.md') and os.path.exists(notes):
        txt = open(notes).read()
        # first heading or first non-empty line
        line = next((l.strip('# ').strip() for l in txt.splitlines() if l.strip() and not l.startswith('```')), '')
        what = line
    caught = m.get('caught_by') or m.get('detected_by') or []
    missed = m.get('missed_by') or []
    origin = 'pinned-tree defect' if m['id'].startswith('A') else 'sub-agent'
    rows.append((m['id'], m['property'], origin, what.replace('|', '/')[:150], ', '.join(caught) or '-', ', '.join(missed) or '-'))
print('| seeded change | property | origin | what it is / what it needs | caught by | missed by |')
print('|---|---|---|---|---|---|')
for r in rows:
    print('| ' + ' | '.join(r) + ' |')
print(f'\n{len(rows)} seeded changes; {sum(1 for r in rows if r[4] != "-")} caught by at least one check, {sum(1 for r in rows if r[4] == "-")} not caught.')
