#!/bin/bash
# every quick command on the unchanged tree for several seeds; prints only failures and a summary
tier=${1:-quick}; shift
seeds=${@:-0 1 2 7 12345}
bad=0
for seed in $seeds; do
  for i in $(seq -w 1 20); do
    out=$(VERIF_SEED=$seed /verif/check C$i --tier $tier 2>&1); rc=$?
    if [ $rc -ne 0 ] || echo "$out" | grep -q "^VIOLATION\|KNOWN-FINDING"; then echo "seed $seed C$i exit $rc"; echo "$out" | tail -5; bad=$((bad+1)); fi
    echo "$out" | tail -1 | awk -v s=$seed '{print "  seed", s, $1, $4}'
  done
done
echo "audit done: $bad failing runs"
