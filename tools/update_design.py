#!/usr/bin/env python3
"""Refreshes the generated blocks of DESIGN.md: the cost table (from tools/costs.json) and the kill matrix.
tools/update_design.py [--record]   --record: first copy wall_s of the current evidence files into tools/costs.json"""
import glob, json, os, re, subprocess, sys
V = '/verif'
cp = os.path.join(V, 'tools', 'costs.json')
costs = json.load(open(cp)) if os.path.exists(cp) else {}
if '--record' in sys.argv:
    for f in sorted(glob.glob(os.path.join(V, 'evidence', 'C*.json'))):
        e = json.load(open(f))
        costs.setdefault(e['property_id'], {})[e['tier']] = round(e['wall_s'], 1)
    json.dump(costs, open(cp, 'w'), indent=1, sort_keys=True)
ids = [f'C{i:02d}' for i in range(1, 21)]
rows = []
for i in range(10):
    a, b = ids[i], ids[i + 10]
    ca, cb = costs.get(a, {}), costs.get(b, {})
    rows.append(f"| {a} | {ca.get('quick', '?')} | {ca.get('thorough', '?')} | | {b} | {cb.get('quick', '?')} | {cb.get('thorough', '?')} |")
km = subprocess.check_output(['python3', os.path.join(V, 'tools', 'kill_matrix.py')], text=True)
p = os.path.join(V, 'DESIGN.md')
s = open(p).read()
s = s.replace('@COSTS@', '<!-- COSTS:BEGIN -->\n<!-- COSTS:END -->').replace('@KILL@', '<!-- KILL:BEGIN -->\n<!-- KILL:END -->')
s = re.sub(r'<!-- COSTS:BEGIN -->.*?<!-- COSTS:END -->', lambda m: '<!-- COSTS:BEGIN -->\n' + '\n'.join(rows) + '\n<!-- COSTS:END -->', s, flags=re.S)
s = re.sub(r'<!-- KILL:BEGIN -->.*?<!-- KILL:END -->', lambda m: '<!-- KILL:BEGIN -->\n' + km + '<!-- KILL:END -->', s, flags=re.S)
open(p, 'w').write(s)
print('DESIGN.md refreshed')
