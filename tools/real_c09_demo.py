"""Reproduces the C09 finding (stale release flag of the hand-rolled barrier) against the REAL server with real threads
and real sockets, outside the explorer.  The only interference is a delay of the main thread at the point the explorer
identified: between the seating barrier's release `set()` and the board loop's `clear()` (the server opens its output
file there; we make that `open` slow), and a short delay before main enters each barrier wait (so that the seat threads,
not main, win the race for the per-seat flags).  Only the main thread is ever delayed; no code is changed.  A conforming session of one passed-out board then hangs.

usage: real_c09_demo.py [delay_seconds]   exit 1 = session hung (defect reproduced), exit 0 = session completed"""
import builtins
import pathlib
import socket
import sys
import tempfile
import threading
import time

import bridge_env.network_bridge.server as srv
from bridge_env import Hands, Player, Vul
from bridge_env.data_handler.abstract_classes import BoardSetting

DELAY = float(sys.argv[1]) if len(sys.argv) > 1 else 1.5
import os
PORT = 23000 + (os.getpid() % 2000)


def slow_open(*a, **k):
    time.sleep(DELAY)          # main thread is descheduled here for a while
    return builtins.open(*a, **k)


srv.open = slow_open
_orig_sync = srv.Server._sync_event


def slow_sync(players_event, event):
    time.sleep(min(DELAY, 0.3))     # main is slow to reach each barrier (seat threads get time to clear their flags)
    return _orig_sync(players_event, event)


if DELAY > 0:
    srv.Server._sync_event = staticmethod(slow_sync)
_real_sleep = time.sleep
srv.time.sleep = lambda s: _real_sleep(min(s, 0.05))    # the 1 s courtesy sleeps only slow the demo down


def client(seat, team, log):
    s = socket.create_connection(('127.0.0.1', PORT))
    f = s.makefile('rwb')

    def send(t):
        f.write((t + '\r\n').encode()); f.flush()

    def recv():
        line = f.readline().decode().rstrip('\r\n')
        log.append(line)
        return line
    send(f'Connecting "{team}" as {seat} using protocol version 18')
    recv(); send(f'{seat} ready for teams'); recv(); send(f'{seat} ready to start')
    recv(); send(f'{seat} ready for deal'); recv(); send(f'{seat} ready for cards'); recv()
    order = ['North', 'East', 'South', 'West']
    for a in order:
        if a == seat:
            send(f'{seat} passes')
        else:
            send(f"{seat} ready for {a}'s bid"); recv()
    recv()   # End of session


def main():
    out = pathlib.Path(tempfile.mkdtemp()) / 'out.json'
    board = BoardSetting(hands=Hands.generate_random_hands(), dealer=Player.N, vul=Vul.NONE, board_id='1')
    done = threading.Event()

    def run_server():
        with srv.Server('127.0.0.1', PORT, out, [board]) as s:
            s.run()
        done.set()
    threading.Thread(target=run_server, daemon=True).start()
    time.sleep(0.3)
    logs = {}
    for seat, team in (('North', 'A'), ('East', 'B'), ('South', 'A'), ('West', 'B')):
        logs[seat] = []
        threading.Thread(target=client, args=(seat, team, logs[seat]), daemon=True).start()
        time.sleep(0.1)
    ok = done.wait(DELAY + 8)
    print('session completed' if ok else 'SESSION HUNG: server main thread never returned')
    for seat, l in logs.items():
        print(f'  {seat}: last message received = {l[-1] if l else None!r}')
    return 0 if ok else 1


if __name__ == '__main__':
    sys.exit(main())
