import sys, time
sys.path.insert(0, "/repo"); sys.path.insert(0, "/verif"); sys.path.insert(0, '/verif/_deps')
from mc.props import C09, sessions, scen
from mc.sched import explore
from mc.core import Counter
its = C09.items('thorough', 0)
it = [i for i in its if i.get('cached')][0]
ctx = sessions.make_ctx(it['spec'])
c = Counter(); seen = explore.LocalSeen(); t = time.time()
stack = [[]]
n = 0
while stack:
    left = explore._dfs(ctx, stack, seen, c, max_execs=c.get('executions') + 5000)
    print('execs', c.get('executions'), 'states', len(seen), 'open', len(left), 'complete', c.get('complete_executions'), round(time.time() - t), 's', flush=True)
    stack = left
print('DONE', c.n)
