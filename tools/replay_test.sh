#!/bin/bash
# usage: tools/replay_test.sh <seed dir> <check id>   -- the replay file of a violation must reproduce on the patched tree and not on /repo
d=$1; c=$2
wt=$(mktemp -d /tmp/vwt_XXXX); rmdir $wt
git -C /repo worktree add -q --detach $wt HEAD
( cd $wt && (git apply --3way $d/patch.diff 2>/dev/null || git apply $d/patch.diff) )
export VERIF_EVIDENCE_DIR=$wt/_ev VERIF_REPLAY_DIR=$wt/_rp
VERIF_REPO=$wt /verif/check $c --tier quick > $wt/_out.txt 2>&1
f=$(grep -m1 '^VIOLATION' $wt/_out.txt | sed 's/.*replay=//')
if [ -z "$f" ]; then echo "$c $(basename $d): NO VIOLATION"; else
  VERIF_REPO=$wt /verif/check $c --replay $f > $wt/_r1.txt 2>&1; r1=$?
  /verif/check $c --replay $f > $wt/_r2.txt 2>&1; r2=$?
  echo "$c $(basename $d): replay on patched tree exit $r1 ($(grep -c REPRODUCED $wt/_r1.txt) REPRODUCED), on /repo exit $r2"
  [ $r1 -ne 1 -o $r2 -ne 0 ] && { tail -5 $wt/_r1.txt; tail -5 $wt/_r2.txt; }
fi
git -C /repo worktree remove --force $wt; git -C /repo worktree prune
