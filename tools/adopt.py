#!/usr/bin/env python3
"""Adopt confirmed seeded changes produced by independent sub-agents: tools/adopt.py <wave log> ...
Each log line: "<dir> :: suite...|demo with patch...|demo without patch...|CONFIRMED|check Cxx: exit N, ...|"
Copies patch.diff, demo.py, notes.md to /verif/seeded/<Cxx>_<a|b>/ and writes/updates meta.json."""
import json, os, re, shutil, sys

for log in sys.argv[1:]:
    for line in open(log):
        if ' :: ' not in line:
            continue
        d, rest = line.rstrip('\n').split(' :: ', 1)
        parts = [p for p in rest.split('|') if p]
        if 'CONFIRMED' not in parts:
            print('skip (not confirmed):', d)
            continue
        m = re.search(r'/(C\d\d)/(\w+)$', d)
        prop, var = m.group(1), m.group(2)
        if 'seedout2' in d:
            var = {'a': 'c', 'b': 'd'}.get(var, var)          # second wave: <prop>_c, <prop>_d
        if 'seedout4' in d:
            var = {'a': 'g', 'b': 'h'}.get(var, var)          # fourth wave: <prop>_g
        if 'seedout5' in d:
            var = {'a': 'h', 'b': 'i'}.get(var, var)          # fifth wave: <prop>_h
        if 'seedout6' in d:
            var = {'a': 'i', 'b': 'j'}.get(var, var)          # sixth wave: <prop>_i
        if 'seedout7' in d:
            var = {'a': 'j', 'b': 'k'}.get(var, var)          # seventh wave: <prop>_j
        if 'seedout8' in d:
            var = {'a': 'k', 'b': 'l'}.get(var, var)          # eighth wave: <prop>_k
        if 'seedout9' in d:
            var = {'a': 'l', 'b': 'm'}.get(var, var)          # ninth wave: <prop>_l
        if 'seedout3' in d:
            var = {'a': 'e', 'b': 'f'}.get(var, var)          # third wave: <prop>_e, <prop>_f
        name = f'{prop}_{var}'
        dst = os.path.join('/verif/seeded', name)
        os.makedirs(dst, exist_ok=True)
        for fn in ('patch.diff', 'demo.py', 'notes.md'):
            if os.path.exists(os.path.join(d, fn)) and os.path.abspath(d) != dst:
                shutil.copy(os.path.join(d, fn), os.path.join(dst, fn))
        mp = os.path.join(dst, 'meta.json')
        meta = json.load(open(mp)) if os.path.exists(mp) else {}
        checks = meta.get('checks', {})
        for p in parts:
            mm = re.match(r'check (C\d\d): exit (\d+), (\d+) VIOLATION lines;\s*(.*)', p)
            if mm:
                checks[mm.group(1)] = {'exit': int(mm.group(2)), 'violation_lines': int(mm.group(3)), 'first_reported': mm.group(4)[:300]}
        notes = open(os.path.join(dst, 'notes.md')).read() if os.path.exists(os.path.join(dst, 'notes.md')) else ''
        meta.update({
            'id': name, 'property': prop,
            'origin': 'written by an independent sub-agent that was given only the property text and a scratch worktree of /repo',
            'needs': meta.get('needs') or 'see notes.md (the author\'s description of the trigger)',
            'ran': [q for q in parts if q.startswith(('suite', 'demo'))],
            'checks': checks,
            'caught_by': sorted(k for k, v in checks.items() if v['exit'] == 1),
            'missed_by': sorted(k for k, v in checks.items() if v['exit'] == 0),
        })
        json.dump(meta, open(mp, 'w'), indent=1)
        print('adopted', name, 'caught_by', meta['caught_by'], 'missed_by', meta['missed_by'])
