#!/bin/bash
# usage: tools/seed_wave.sh <out.log> <dir>:<checks...> ...   (runs try_seed for each, in parallel, 4 at a time)
log=$1; shift
: > $log
for spec in "$@"; do
  d=${spec%%:*}; cs=${spec#*:}
  ( r=$(python3 /verif/tools/try_seed.py $d $cs $SEED_ARGS 2>&1 | grep -E "^(CONFIRMED|NOT CONFIRMED|check |PATCH DOES|suite|demo)" | tr '\n' '|'); echo "$d :: $r" >> $log ) &
  while [ $(jobs -r | wc -l) -ge 4 ]; do sleep 1; done
done
wait
