#!/usr/bin/env python3
"""tools/mk_seed_prompts.py <wave-no> <Cxx> ... : writes /tmp/seedout<w>/<Cxx>/prompt.txt and creates the scratch worktree /tmp/seedwt<w>/<Cxx>.
The prompt holds ONLY the property's title, statement and quantifier plus one-line titles of changes already delivered (so that the
author looks elsewhere); nothing from /verif's machinery."""
import json, os, re, subprocess, sys

w = sys.argv[1]
props = {json.loads(l)['id']: json.loads(l) for l in open('/verif/properties.jsonl')}
TEMPLATE = open('/verif/tools/seed_prompt_template.txt').read()
for pid in sys.argv[2:]:
    p = props[pid]
    delivered = []
    for d in sorted(os.listdir('/verif/seeded')):
        if d.startswith(pid + '_'):
            n = os.path.join('/verif/seeded', d, 'notes.md')
            if os.path.exists(n):
                t = open(n).readline().strip().lstrip('# ').strip()
                t = re.sub(r'^C\d\d\s*/\s*\w+\s*[-—:]*\s*', '', t)
                if t:
                    delivered.append(t)
    out = f'/tmp/seedout{w}/{pid}'
    wt = f'/tmp/seedwt{w}/{pid}'
    os.makedirs(out, exist_ok=True)
    os.makedirs(os.path.dirname(wt), exist_ok=True)
    if not os.path.exists(wt):
        subprocess.check_call(['git', '-C', '/repo', 'worktree', 'add', '-q', '--detach', wt, 'HEAD'])
    txt = (TEMPLATE.replace('{WT}', wt).replace('{OUT}', out).replace('{ID}', pid).replace('{TITLE}', p['title'])
           .replace('{STATEMENT}', p['statement']).replace('{QUANT}', p['quantifier']['text'])
           .replace('{DELIVERED}', '\n'.join(f'     - {t}' for t in delivered)))
    open(os.path.join(out, 'prompt.txt'), 'w').write(txt)
    print(pid, len(delivered), 'delivered titles')
