#!/usr/bin/env python3
"""Confirm a seeded change and run checks against it.

usage: tools/try_seed.py <dir with patch.diff [+ demo.py]> <check id>... [--tier quick|thorough] [--skip-confirm]

1. in a scratch worktree of /repo (under /tmp, removed afterwards): the patch applies, the baseline suite passes with it,
   the demo FAILs with it and PASSes without it;
2. on /repo itself: apply the patch, run each named check, undo the patch (always, also on error).
Prints one summary line per step; exit 0 iff confirmed and at least one check reported a VIOLATION."""
import json
import os
import shutil
import subprocess
import sys
import tempfile

REPO = '/repo'
PY = '/venv/bin/python'


def sh(cmd, cwd=None, timeout=1800, env=None):
    p = subprocess.run(cmd, shell=True, cwd=cwd, stdout=subprocess.PIPE, stderr=subprocess.STDOUT, text=True, timeout=timeout, env=env)
    return p.returncode, p.stdout


def main():
    args = [a for a in sys.argv[1:] if not a.startswith('--')]
    tier = 'quick'
    if '--tier' in sys.argv:
        tier = sys.argv[sys.argv.index('--tier') + 1]
        args.remove(tier)
    skip = '--skip-confirm' in sys.argv
    d = os.path.abspath(args[0])
    checks = args[1:]
    patch = os.path.join(d, 'patch.diff')
    demo = next((os.path.join(d, n) for n in ('demo.py', 'demo_real_threads.py') if os.path.exists(os.path.join(d, n))), None)
    out = {'dir': d, 'confirmed': None, 'checks': {}}
    if not skip:
        wt = tempfile.mkdtemp(prefix='vwt_', dir='/tmp')
        os.rmdir(wt)
        try:
            rc, o = sh(f'git -C {REPO} worktree add -q --detach {wt} HEAD')
            assert rc == 0, o
            rc, o = sh(f'git apply --3way {patch} 2>&1 || git apply {patch}', cwd=wt)
            if rc != 0:
                print('PATCH DOES NOT APPLY:', o[-500:])
                out['confirmed'] = False
            else:
                env = dict(os.environ, PYTHONDONTWRITEBYTECODE='1')
                rc_t, o_t = sh(f'{PY} -m pytest -q -p no:cacheprovider -x --timeout=900 2>&1 | tail -3', cwd=wt, env=env)
                suite_ok = ' passed' in o_t and 'failed' not in o_t and 'error' not in o_t.lower()
                print('suite with patch:', o_t.strip().splitlines()[-1] if o_t.strip() else rc_t)
                demo_fail = demo_pass = None
                if demo:
                    rc1, o1 = sh(f'timeout 120 {PY} {demo}', cwd=wt, env=env)
                    print(f'demo with patch: exit {rc1}:', (o1.strip().splitlines() or [''])[-1][:300])
                    sh('git checkout -- . && git reset -q --hard', cwd=wt)
                    rc0, o0 = sh(f'timeout 120 {PY} {demo}', cwd=wt, env=env)
                    print(f'demo without patch: exit {rc0}:', (o0.strip().splitlines() or [''])[-1][:300])
                    demo_fail, demo_pass = rc1 != 0, rc0 == 0
                out['confirmed'] = bool(suite_ok and (demo is None or (demo_fail and demo_pass)))
                out.update(suite_ok=suite_ok, demo_fails_with=demo_fail, demo_passes_without=demo_pass)
        finally:
            sh(f'git -C {REPO} worktree remove --force {wt}; git -C {REPO} worktree prune')
            shutil.rmtree(wt, ignore_errors=True)
        print('CONFIRMED' if out['confirmed'] else 'NOT CONFIRMED')
    if checks:
        # checks run against a scratch worktree with the patch applied (VERIF_REPO redirects the import), /repo is not touched
        wt = tempfile.mkdtemp(prefix='vwt_', dir='/tmp')
        os.rmdir(wt)
        try:
            rc, o = sh(f'git -C {REPO} worktree add -q --detach {wt} HEAD')
            assert rc == 0, o
            rc, o = sh(f'git apply --3way {patch} 2>&1 || git apply {patch}', cwd=wt)
            assert rc == 0, o
            env = dict(os.environ, VERIF_REPO=wt, VERIF_EVIDENCE_DIR=os.path.join(wt, '_evidence'), VERIF_REPLAY_DIR=os.path.join(wt, '_replays'))
            rc, o = sh('/venv/bin/python -c "import bridge_env,sys; print(bridge_env.__file__)"', cwd='/verif', env=dict(env, PYTHONPATH=wt))
            assert o.strip().startswith(wt), o
            for cid in checks:
                rc, o = sh(f'./check {cid} --tier {tier}', cwd='/verif', timeout=7200, env=env)
                viol = [l for l in o.splitlines() if l.startswith('VIOLATION')]
                first = next((l for l in o.splitlines() if l.startswith('  ') and ':' in l), '')
                out['checks'][cid] = {'exit': rc, 'violations': len(viol), 'first': first.strip()[:300]}
                print(f'check {cid}: exit {rc}, {len(viol)} VIOLATION lines;{first[:400]}')
                if rc == 2:
                    print(o[-1500:])
        finally:
            sh(f'git -C {REPO} worktree remove --force {wt}; git -C {REPO} worktree prune')
            shutil.rmtree(wt, ignore_errors=True)
    print(json.dumps(out))
    caught = any(v['exit'] == 1 for v in out['checks'].values())
    return 0 if (out['confirmed'] is not False and caught) else 1


if __name__ == '__main__':
    sys.exit(main())
