#!/bin/bash
# Offline setup: jsonschema (+deps) from the local wheelhouse into /verif/_deps; /venv is left untouched.
set -e
cd "$(dirname "$0")"
if ! PYTHONPATH="$(pwd)/_deps" /venv/bin/python -c "import jsonschema, referencing" 2>/dev/null; then
  rm -rf _deps && mkdir -p _deps
  PIP_NO_INDEX=1 /venv/bin/pip install --quiet --no-index --find-links /opt/veriftools/wheels --target "$(pwd)/_deps" jsonschema
fi
mkdir -p evidence replays
PYTHONPATH="$(pwd):$(pwd)/_deps" PYTHONDONTWRITEBYTECODE=1 PYTHONHASHSEED=0 /venv/bin/python -m mc.selftest
echo "setup ok"
