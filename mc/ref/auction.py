"""Reference model of a contract-bridge auction: pure functions of the call history.

Calls are strings '1C'..'7NT', 'Pass', 'X', 'XX'; seats are 'N','E','S','W' (clockwise N->E->S->W).
No incremental flags, no availability mask: everything is recomputed by scanning the history."""
from typing import List, Optional, Set, Tuple

DENOMS = ['C', 'D', 'H', 'S', 'NT']
BIDS = [f'{lv}{d}' for lv in range(1, 8) for d in DENOMS]          # ascending rank
CALLS = BIDS + ['Pass', 'X', 'XX']                                   # index = slot in the 38-vector
SEATS = 'NESW'
RANK = {b: i for i, b in enumerate(BIDS)}


def seat_at(dealer: str, i: int) -> str:
    return SEATS[(SEATS.index(dealer) + i) % 4]


def same_side(a: str, b: str) -> bool:
    return (SEATS.index(a) - SEATS.index(b)) % 2 == 0


def is_bid(c: str) -> bool:
    return c in RANK


def finished(history: List[str]) -> bool:
    n = len(history)
    if n < 4:
        return False
    if history[-3:] != ['Pass'] * 3:
        return False
    if all(c == 'Pass' for c in history):
        return n == 4          # four opening passes (a 5th can never be accepted)
    # three consecutive passes following some bid / double / redouble
    return history[-4] != 'Pass' or any(c != 'Pass' for c in history[:-3])


def ever_finished(history: List[str]) -> bool:
    """True if some prefix (including the whole) is a finished auction."""
    return any(finished(history[:k]) for k in range(4, len(history) + 1))


def last_nonpass(history: List[str]) -> Optional[int]:
    for k in range(len(history) - 1, -1, -1):
        if history[k] != 'Pass':
            return k
    return None


def last_bid_index(history: List[str]) -> Optional[int]:
    for k in range(len(history) - 1, -1, -1):
        if is_bid(history[k]):
            return k
    return None


def legal(history: List[str], dealer: str) -> Set[str]:
    """Legal calls for the seat on turn; empty once the auction is over."""
    if finished(history):
        return set()
    me = seat_at(dealer, len(history))
    out = {'Pass'}
    lb = last_bid_index(history)
    floor = -1 if lb is None else RANK[history[lb]]
    out.update(b for b in BIDS if RANK[b] > floor)
    k = last_nonpass(history)
    if k is not None:
        who = seat_at(dealer, k)
        c = history[k]
        if is_bid(c):
            if not same_side(who, me):
                out.add('X')
        elif c == 'X':
            # the double was made by `who` against the last bid; I may redouble iff the doubler is my opponent
            # (then the doubled bid is my side's)
            bidder = seat_at(dealer, lb)
            if not same_side(who, me) and same_side(bidder, me):
                out.add('XX')
    return out


def doubling(history: List[str]) -> int:
    """0 undoubled, 1 doubled, 2 redoubled: status of the last bid."""
    lb = last_bid_index(history)
    if lb is None:
        return 0
    st = 0
    for c in history[lb + 1:]:
        if c == 'X':
            st = 1
        elif c == 'XX':
            st = 2
    return st


def contract(history: List[str], dealer: str) -> Optional[Tuple[str, int, str]]:
    """(bid, doubling, declarer) of a finished auction, None when passed out."""
    lb = last_bid_index(history)
    if lb is None:
        return None
    bid = history[lb]
    denom = bid[1:]
    side_of = seat_at(dealer, lb)
    for k, c in enumerate(history):
        if is_bid(c) and c[1:] == denom and same_side(seat_at(dealer, k), side_of):
            return bid, doubling(history), seat_at(dealer, k)
    raise AssertionError('unreachable')


def first_namers(history: List[str], dealer: str):
    """{(side 'NS'|'EW', denom): seat} first seat of each side to name each denomination."""
    out = {}
    for k, c in enumerate(history):
        if is_bid(c):
            s = seat_at(dealer, k)
            side = 'NS' if s in 'NS' else 'EW'
            out.setdefault((side, c[1:]), s)
    return out


def per_seat(history: List[str], dealer: str):
    out = {s: [] for s in SEATS}
    for k, c in enumerate(history):
        out[seat_at(dealer, k)].append(c)
    return out
