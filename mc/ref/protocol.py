"""Reference table manager (Blue Chip Bridge protocol v18 as spoken by bridge_env's server), written from the protocol
text and the conversation grammar in DESIGN.md appendix A.  No bridge_env logic is used: auction, play and score come
from the reference models in this package.

build_session(...) maps (boards, teams, per-board decisions, per-seat notation) to
  * the complete conversation of each seat's connection: a list of ('send', text) / ('recv', kind, payload) items;
  * the expected log records (as JSON values).
classify(line) turns a line sent by the server into (kind, payload) with tolerant patterns, so that the comparison is
on meaning, not on wording."""
from __future__ import annotations

import re
from typing import Callable, Dict, List, Optional, Sequence, Tuple

from . import auction as RA
from . import play as RP
from . import score as RS

SEATS = 'NESW'
FORMAL = {'N': 'North', 'E': 'East', 'S': 'South', 'W': 'West'}
SEAT_OF = {v.lower(): k for k, v in FORMAL.items()}
RANKS = '23456789TJQKA'
SUITS = 'CDHS'
VUL_WORD = {'None': 'Neither', 'NS': 'N/S', 'EW': 'E/W', 'Both': 'Both'}
VUL_OF_WORD = {v.lower(): k for k, v in VUL_WORD.items()}
CALL_WORD = {'Pass': 'passes', 'X': 'doubles', 'XX': 'redoubles'}


def card_name(c: int) -> str:
    """Library / log notation: suit letter then rank letter."""
    return SUITS[c // 13] + RANKS[c % 13]


def card_of(text: str) -> Optional[int]:
    t = text.strip().upper()
    if len(t) != 2:
        return None
    if t[0] in SUITS and t[1] in RANKS:
        return SUITS.index(t[0]) * 13 + RANKS.index(t[1])
    if t[1] in SUITS and t[0] in RANKS:
        return SUITS.index(t[1]) * 13 + RANKS.index(t[0])
    return None


def hand_text(cards) -> str:
    """'S A K 3. H -. D 4 2. C J.'  (spades first, ranks high to low, '-' for a void)"""
    parts = []
    for s in 'SHDC':
        rs = sorted((c % 13 for c in cards if SUITS[c // 13] == s), reverse=True)
        parts.append(f'{s} ' + (' '.join(RANKS[r] for r in rs) if rs else '-'))
    return '. '.join(parts) + '.'


def parse_hand_text(text: str) -> Optional[frozenset]:
    m = re.fullmatch(r'\s*S\s+(.*?)\.\s*H\s+(.*?)\.\s*D\s+(.*?)\.\s*C\s+(.*?)\.\s*', text, re.IGNORECASE)
    if not m:
        return None
    out = set()
    for suit, grp in zip('SHDC', m.groups()):
        toks = grp.split()
        if not toks or ('-' in toks and toks != ['-']):
            return None          # the protocol writes a void as "-": an empty holding (or "-" next to ranks) is not a hand
        for tok in toks:
            if tok == '-':
                continue
            t = tok.upper()
            if t == '10':
                t = 'T'
            if t not in RANKS:
                return None
            out.add(SUITS.index(suit) * 13 + RANKS.index(t))
    return frozenset(out)


def _ws(p: str) -> str:
    return p.replace(' ', r'\s+')


_SEAT = r'(north|east|south|west)'
_PATTERNS = [
    ('seated', re.compile(_ws(_SEAT + r' (.*) seated\.?\s*'), re.I)),
    ('teams', re.compile(r'teams\s*:\s*n/s\s*:\s*"(.*)"\.?\s+e/w\s*:\s*"(.*)"\.?\s*', re.I)),
    ('start', re.compile(_ws(r'start of board\.?\s*'), re.I)),
    ('board', re.compile(_ws(r'board number (\d+)\. dealer ' + _SEAT + r'\. (neither|n/s|e/w|both) vulnerable\.?\s*'), re.I)),
    ('cards', re.compile(r"(north|east|south|west|dummy)'s\s+cards\s*:\s*(.*)", re.I)),
    ('call', re.compile(_ws(_SEAT + r' (passes|doubles|redoubles|bids ([1-7])\s*(c|d|h|s|nt))\.?\s*'), re.I)),
    ('card', re.compile(_ws(_SEAT + r' plays (\w\w)\.?\s*'), re.I)),
    ('lead', re.compile(_ws(r'(north|east|south|west|dummy) to lead\.?\s*'), re.I)),
    ('end', re.compile(_ws(r'end of session\.?\s*'), re.I)),
]


def classify(line: str) -> tuple:
    for kind, pat in _PATTERNS:
        m = pat.fullmatch(line)
        if not m:
            continue
        if kind == 'seated':
            team = m.group(2).strip()
            if team.startswith('("') and team.endswith('")'):
                team = team[2:-2]
            return ('seated', SEAT_OF[m.group(1).lower()], team)
        if kind == 'teams':
            return ('teams', m.group(1), m.group(2))
        if kind == 'start':
            return ('start',)
        if kind == 'board':
            return ('board', int(m.group(1)), SEAT_OF[m.group(2).lower()], VUL_OF_WORD[m.group(3).lower()])
        if kind == 'cards':
            who = m.group(1).lower()
            h = parse_hand_text(m.group(2))
            if h is None:
                return ('unknown', line)
            return ('cards', 'dummy' if who == 'dummy' else SEAT_OF[who], h)
        if kind == 'call':
            w = m.group(2).lower()
            if w.startswith('bids'):
                call = m.group(3) + m.group(4).upper()
            else:
                call = {'passes': 'Pass', 'doubles': 'X', 'redoubles': 'XX'}[w]
            return ('call', SEAT_OF[m.group(1).lower()], call)
        if kind == 'card':
            c = card_of(m.group(2))
            if c is None:
                return ('unknown', line)
            return ('card', SEAT_OF[m.group(1).lower()], c)
        if kind == 'lead':
            who = m.group(1).lower()
            return ('lead', 'dummy' if who == 'dummy' else SEAT_OF[who])
        if kind == 'end':
            return ('end',)
    low = line.lower()
    if low.startswith('error') or 'illegal' in low or 'error' in low:
        return ('error', line)
    return ('unknown', line)


class Notation:
    """How one seat spells what it sends."""

    def __init__(self, card='rank_suit', case='asis', alert='', blanks=1):
        self.card = card            # 'rank_suit' (KS) | 'suit_rank' (SK)
        self.case = case            # 'asis' | 'lower' | 'upper'
        self.alert = alert          # suffix appended to calls, e.g. ' Alert.'
        self.blanks = blanks        # number of blanks between words

    def spell(self, text: str, alert: bool = False) -> str:
        if alert:
            text += self.alert
        if self.blanks != 1:
            text = text.replace(' ', ' ' * self.blanks)
        if self.case == 'lower':
            text = text.lower()
        elif self.case == 'upper':
            text = text.upper()
        return text

    def card_text(self, c: int) -> str:
        return RANKS[c % 13] + SUITS[c // 13] if self.card == 'rank_suit' else SUITS[c // 13] + RANKS[c % 13]

    def key(self):
        return (self.card, self.case, self.alert, self.blanks)


DEFAULT_NOTATION = Notation()


def call_line(seat: str, call: str, nt: Notation) -> str:
    word = CALL_WORD.get(call) or f'bids {call}'
    return nt.spell(f'{FORMAL[seat]} {word}', alert=True)


def card_line(seat: str, c: int, nt: Notation) -> str:
    return nt.spell(f'{FORMAL[seat]} plays {nt.card_text(c)}')


def connect_line(seat: str, team: str, version: int = 18) -> str:
    return f'Connecting "{team}" as {FORMAL[seat]} using protocol version {version}'


# ------------------------------------------------------------------------------------------------------------------
# decisions

def play_out(deal: Dict[str, frozenset], declarer: str, trump: Optional[int],
             policy: Callable[[str, set, Optional[int], RP.Board], int]) -> List[int]:
    """Complete 52-card play sequence: policy(seat, remaining hand, card led or None, board) -> card held by seat."""
    b = RP.Board(declarer, trump)
    hands = {s: set(deal[s]) for s in SEATS}
    seq = []
    while not b.done():
        s = b.active
        c = policy(s, hands[s], b.led(), b)
        assert c in hands[s], (s, c)
        hands[s].remove(c)
        seq.append(c)
        b.play(c)
    return seq


def pol_lowest_legal(seat, hand, led, board):
    return min(RP.playable(hand, led))


def pol_highest_legal(seat, hand, led, board):
    return max(RP.playable(hand, led))


def pol_lowest_held(seat, hand, led, board):
    return min(hand)            # revokes whenever the lowest card is off suit


def pol_highest_held(seat, hand, led, board):
    return max(hand)


POLICIES = {'lowest_legal': pol_lowest_legal, 'highest_legal': pol_highest_legal, 'lowest_held': pol_lowest_held,
            'highest_held': pol_highest_held}


def trump_of(bid: str) -> Optional[int]:
    d = bid[1:]
    return None if d == 'NT' else SUITS.index(d)


class BoardPlan:
    """One configured board + the four players' decisions on it."""

    def __init__(self, board_id: str, dealer: str, vul: str, deal: Dict[str, frozenset], auction: Sequence[str],
                 play: Optional[Sequence[int]] = None, policy: str = 'lowest_legal', dda=None):
        self.board_id, self.dealer, self.vul, self.deal, self.dda = board_id, dealer, vul, deal, dda
        self.auction = list(auction)
        if not RA.finished(self.auction):
            raise ValueError(f'auction {auction} is not complete')
        for k in range(len(self.auction)):
            if self.auction[k] not in RA.legal(self.auction[:k], dealer):
                raise ValueError(f'call {k} of {auction} is not legal')
        self.contract = RA.contract(self.auction, dealer)       # (bid, doubling, declarer) | None
        if self.contract is None:
            self.play = None
        elif play is not None:
            self.play = list(play)
        else:
            self.play = play_out(deal, self.contract[2], trump_of(self.contract[0]), POLICIES[policy])

    # derived results --------------------------------------------------------------------------------------------
    def result(self):
        if self.contract is None:
            return None
        bid, dbl, decl = self.contract
        b = RP.Board(decl, trump_of(bid))
        for c in self.play:
            b.play(c)
        tricks = b.taken[RP.side(decl)]
        score = RS.duplicate_score(int(bid[0]), bid[1:], dbl, RS.side_vulnerable(self.vul, decl), tricks)
        return b, tricks, score

    def log_record(self, teams: Dict[str, str]) -> dict:
        rec = {
            'players': {'N': teams['NS'], 'E': teams['EW'], 'S': teams['NS'], 'W': teams['EW']},
            'board_id': self.board_id,
            'dealer': self.dealer,
            'deal': {s: [card_name(c) for c in sorted(self.deal[s])] for s in SEATS},
            'vulnerability': self.vul,
            'bid_history': list(self.auction),
        }
        if self.contract is None:
            rec.update({'contract': 'Passed_out', 'declarer': None, 'play_history': None, 'taken_trick': None,
                        'score_type': 'IMP', 'scores': {'NS': 0, 'EW': 0}})
        else:
            bid, dbl, decl = self.contract
            b, tricks, score = self.result()
            side = RP.side(decl)
            other = 'EW' if side == 'NS' else 'NS'
            rec.update({'contract': bid + 'X' * dbl, 'declarer': decl,
                        'play_history': [{'leader': ld, 'cards': [card_name(c) for c in cs]} for ld, cs in b.tricks],
                        'taken_trick': tricks, 'score_type': 'IMP', 'scores': {side: score, other: -score}})
        if self.dda is not None:
            rec['dda'] = {p: dict(r) for p, r in self.dda.items()}
        return rec


def board_conversation_marked(p: str, k: int, plan: BoardPlan, nt: Notation):
    """Script items of seat p for board number k (1-based), each with a mark: ('pre', 0) for the deal part, ('call', i)
    for everything belonging to the i-th call, ('card', n) for everything belonging to the n-th card (0-based)."""
    F = FORMAL
    it: List[tuple] = [(x, ('pre', 0)) for x in (('recv', 'start', ('start',)),
                                                 ('send', nt.spell(f'{F[p]} ready for deal')),
                                                 ('recv', 'board', ('board', k, plan.dealer, plan.vul)),
                                                 ('send', nt.spell(f'{F[p]} ready for cards')),
                                                 ('recv', 'cards', ('cards', p, frozenset(plan.deal[p]))))]
    for i, call in enumerate(plan.auction):
        a = RA.seat_at(plan.dealer, i)
        m = ('call', i)
        if a == p:
            it.append((('send', call_line(p, call, nt)), m))
        else:
            it.append((('send', nt.spell(f"{F[p]} ready for {F[a]}'s bid")), m))
            it.append((('recv', 'call', ('call', a, call)), m))
    if plan.contract is None:
        return it
    bid, dbl, decl = plan.contract
    dummy = RP.partner(decl)
    b = RP.Board(decl, trump_of(bid))
    for n, c in enumerate(plan.play):
        t, i, s = b.trick_num, len(b.trick), b.active
        ctrl = decl if s == dummy else s
        m = ('card', n)
        if p == ctrl:
            if i == 0:
                it.append((('recv', 'lead', ('lead', 'dummy' if s == dummy else s)), m))
            it.append((('send', card_line(s, c, nt)), m))
        else:
            who = 'dummy' if s == dummy else F[s]
            it.append((('send', nt.spell(f"{F[p]} ready for {who}'s card to trick {t}")), m))
            it.append((('recv', 'card', ('card', s, c)), m))
        if n == 0 and p != dummy:
            it.append((('send', nt.spell(f'{F[p]} ready for dummy')), m))
            it.append((('recv', 'cards', ('cards', 'dummy', frozenset(plan.deal[dummy]))), m))
        b.play(c)
    return it


def board_conversation(p: str, k: int, plan: BoardPlan, nt: Notation, stop_after: Optional[Tuple[str, int]] = None):
    """Script items of seat p for board number k (1-based).  stop_after=('call', j) / ('card', j) truncates the board
    after everything that belongs to the j-th call / card."""
    out = []
    order = {'pre': 0, 'call': 1, 'card': 2}
    for item, m in board_conversation_marked(p, k, plan, nt):
        if stop_after is not None and (order[m[0]], m[1]) > (order[stop_after[0]], stop_after[1]):
            break
        out.append(item)
    return out


def board_conversation_before(p: str, k: int, plan: BoardPlan, nt: Notation, before: Tuple[str, int]):
    """Items strictly before the given call / card (used by the abort scenarios: the offender departs at `before`)."""
    out = []
    order = {'pre': 0, 'call': 1, 'card': 2}
    for item, m in board_conversation_marked(p, k, plan, nt):
        if (order[m[0]], m[1]) >= (order[before[0]], before[1]):
            break
        out.append(item)
    return out


def admission_conversation(p: str, teams: Dict[str, str], nt: Notation, version: int = 18):
    team = teams['NS'] if p in 'NS' else teams['EW']
    return [('send', connect_line(p, team, version)),
            ('recv', 'seated', ('seated', p, team)),
            ('send', nt.spell(f'{FORMAL[p]} ready for teams')),
            ('recv', 'teams', ('teams', teams['NS'], teams['EW'])),
            ('send', nt.spell(f'{FORMAL[p]} ready to start'))]


def build_session(plans: List[BoardPlan], teams: Dict[str, str], notations: Optional[Dict[str, Notation]] = None):
    notations = notations or {}
    scripts = {}
    for p in SEATS:
        nt = notations.get(p, DEFAULT_NOTATION)
        it = admission_conversation(p, teams, nt)
        for k, plan in enumerate(plans, 1):
            it += board_conversation(p, k, plan, nt)
        it.append(('recv', 'end', ('end',)))
        scripts[p] = it
    return scripts, [pl.log_record(teams) for pl in plans]
