"""Duplicate-bridge score by formula (Laws of Duplicate Bridge, Law 77) and the IMP scale (Law 78B).
Structurally unlike bridge_env/score.py: no undertrick tables, contract points computed trick by trick."""

def trick_points(denom: str, level: int) -> int:
    if denom in ('C', 'D'):
        return 20 * level
    if denom in ('H', 'S'):
        return 30 * level
    return 40 + 30 * (level - 1)


def duplicate_score(level: int, denom: str, doubling: int, vul: bool, tricks: int) -> int:
    """Score for declarer's side. doubling: 0 none, 1 doubled, 2 redoubled."""
    need = level + 6
    if tricks < need:
        under = need - tricks
        if doubling == 0:
            return -under * (100 if vul else 50)
        total = 0
        for k in range(1, under + 1):
            if vul:
                total += 200 if k == 1 else 300
            else:
                total += 100 if k == 1 else (200 if k <= 3 else 300)
        return -total * (2 if doubling == 2 else 1)
    over = tricks - need
    pts = trick_points(denom, level) * (1, 2, 4)[doubling]
    score = pts
    score += (500 if vul else 300) if pts >= 100 else 50
    if level == 6:
        score += 750 if vul else 500
    elif level == 7:
        score += 1500 if vul else 1000
    score += (0, 50, 100)[doubling]
    if doubling == 0:
        per = 20 if denom in ('C', 'D') else 30
    else:
        per = (200 if vul else 100) * (2 if doubling == 2 else 1)
    return score + per * over


# (low, high, imps) rows exactly as printed in Law 78B
IMP_ROWS = [(20, 40, 1), (50, 80, 2), (90, 120, 3), (130, 160, 4), (170, 210, 5), (220, 260, 6), (270, 310, 7),
            (320, 360, 8), (370, 420, 9), (430, 490, 10), (500, 590, 11), (600, 740, 12), (750, 890, 13),
            (900, 1090, 14), (1100, 1290, 15), (1300, 1490, 16), (1500, 1740, 17), (1750, 1990, 18),
            (2000, 2240, 19), (2250, 2490, 20), (2500, 2990, 21), (3000, 3490, 22), (3500, 3990, 23)]


def imps(diff: int) -> int:
    a = abs(diff)
    if a >= 4000:
        v = 24
    else:
        v = 0
        for lo, hi, k in IMP_ROWS:
            # a value between two printed rows (not a multiple of 10) belongs to the row below it
            if a >= lo:
                v = k
    return v if diff >= 0 else -v


def side_vulnerable(vul: str, seat: str) -> bool:
    """vul in {'None','NS','EW','Both'}."""
    if vul == 'Both':
        return True
    if vul == 'None':
        return False
    return seat in vul
