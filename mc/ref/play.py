"""Reference model of the play of a board.  Cards are ints 0..51: suit = c // 13 (0 C, 1 D, 2 H, 3 S), rank = c % 13
(0 = deuce .. 12 = ace).  Trump is 0..3 or None (no-trump).  Seats 'N','E','S','W'."""
from typing import Dict, List, Optional, Sequence, Set, Tuple

SEATS = 'NESW'
SUITS = 'CDHS'


def nxt(s: str) -> str:
    return SEATS[(SEATS.index(s) + 1) % 4]


def partner(s: str) -> str:
    return SEATS[(SEATS.index(s) + 2) % 4]


def side(s: str) -> str:
    return 'NS' if s in 'NS' else 'EW'


def suit(c: int) -> int:
    return c // 13


def rank(c: int) -> int:
    return c % 13


def trick_winner(cards: Sequence[int], trump: Optional[int]) -> int:
    """Position 0..3 of the winning card."""
    trumps = [i for i, c in enumerate(cards) if trump is not None and suit(c) == trump]
    pool = trumps if trumps else [i for i, c in enumerate(cards) if suit(c) == suit(cards[0])]
    return max(pool, key=lambda i: rank(cards[i]))


def playable(hand: Set[int], led: Optional[int]) -> Set[int]:
    if led is None:
        return set(hand)
    same = {c for c in hand if suit(c) == suit(led)}
    return same if same else set(hand)


class Board:
    """Full replay of a play sequence (cards in order); no legality checks beyond bookkeeping."""

    def __init__(self, declarer: str, trump: Optional[int]):
        self.declarer = declarer
        self.dummy = partner(declarer)
        self.trump = trump
        self.leader = nxt(declarer)
        self.active = self.leader
        self.trick: List[int] = []
        self.tricks: List[Tuple[str, Tuple[int, ...]]] = []
        self.taken = {'NS': 0, 'EW': 0}
        self.played: List[int] = []

    @property
    def trick_num(self) -> int:
        return len(self.tricks) + 1

    def done(self) -> bool:
        return len(self.tricks) >= 13

    def play(self, c: int):
        self.trick.append(c)
        self.played.append(c)
        if len(self.trick) == 4:
            w = trick_winner(self.trick, self.trump)
            self.tricks.append((self.leader, tuple(self.trick)))
            seat = self.leader
            for _ in range(w):
                seat = nxt(seat)
            self.leader = seat
            self.active = seat
            self.taken[side(seat)] += 1
            self.trick = []
        else:
            self.active = nxt(self.active)

    def led(self) -> Optional[int]:
        return self.trick[0] if self.trick else None
