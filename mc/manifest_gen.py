"""Regenerates /verif/MANIFEST.json from the table below (kept in code so that it stays consistent)."""
import json
import os
import sys

CHECKS = {}   # filled by register()
ORDER = [f'C{i:02d}' for i in range(1, 21)]


def register(pid, category, text, note, technique, design_ref, engine):
    CHECKS[pid] = dict(category=category, text=text, note=note, technique=technique, design_ref=design_ref,
                       engine=engine)


from .manifest_table import fill  # noqa: E402

fill(register)

NOT_BUILT_REASON = 'check not built yet in this revision of /verif (planned, see DESIGN.md section 4)'


def main():
    checks = []
    na = []
    for pid in ORDER:
        c = CHECKS.get(pid)
        if c is None or not os.path.exists(os.path.join(os.path.dirname(__file__), 'props', pid + '.py')):
            na.append({'property_id': pid, 'reason': NOT_BUILT_REASON})
            continue
        checks.append({
            'property_id': pid,
            'quick_cmd': f'./check {pid} --tier quick',
            'thorough_cmd': f'./check {pid} --tier thorough',
            'evidence_file': f'/verif/evidence/{pid}.json',
            'replay_cmd_template': f'./check {pid} --replay {{path}}',
            'engine': c['engine'],
            'level_claimed': {'category': c['category'], 'text': c['text'], 'design_ref': c['design_ref']},
            'level_note': c['note'],
            'technique': c['technique'],
        })
    doc = {
        'version': 1,
        'setup_cmd': './setup.sh',
        'hooks': {
            'guard': 'BRIDGE_ENV_VERIF',
            'enable': 'no source hooks are needed: the checks close the system by substituting sys.modules entries '
                      '(threading/queue/socket/time) and module globals at import time; BRIDGE_ENV_VERIF is reserved and unused',
            'baseline_off_cmd': 'cd /repo && /venv/bin/python -m pytest -q -p no:cacheprovider --timeout=900',
            'source_commits': [],
            'add_only': True,
        },
        'engines': [
            {'name': 'A-sequential', 'path': 'mc/props',
             'serves_properties': [p for p in ORDER if CHECKS.get(p, {}).get('engine') == 'A-sequential'],
             'kind_free_text': 'explicit-state BFS / bounded-exhaustive enumeration over the real objects, '
                               'history-based reference models as oracle'},
            {'name': 'C-call-interleavings', 'path': 'mc/conc',
             'serves_properties': ['C06', 'C07', 'C14', 'C15', 'C16', 'C19'],
             'kind_free_text': 'two calls into the sequential API in two threads, every single-preemption interleaving at line / bytecode granularity, '
                               'each execution in a fresh fork of a pristine interpreter (hidden shared state: lazily built globals, caches, scratch attributes)'},
            {'name': 'B-schedules', 'path': 'mc/sched',
             'serves_properties': [p for p in ORDER if CHECKS.get(p, {}).get('engine') == 'B-schedules'],
             'kind_free_text': 'stateless deviation-bounded and state-cached schedule exploration of the real server/client '
                               'threads under virtual threading/queue/socket primitives'},
        ],
        'checks': checks,
        'not_applicable': na,
        'notes': 'See DESIGN.md. All checks run /repo\'s working tree through the editable install in /venv.',
    }
    if not na:
        del doc['not_applicable']
    path = os.path.join(os.path.dirname(os.path.dirname(__file__)), 'MANIFEST.json')
    with open(path, 'w') as f:
        json.dump(doc, f, indent=1)
        f.write('\n')
    try:
        import jsonschema
        jsonschema.validate(doc, json.load(open('/root/.vp/MANIFEST.schema.json')))
        print('MANIFEST.json valid;', len(checks), 'checks,', len(na), 'not applicable')
    except ImportError:
        print('written (jsonschema unavailable)')


if __name__ == '__main__':
    sys.exit(main())
