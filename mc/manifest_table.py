ENGINE_C_NOTE = (' Plus Engine C: pairs of calls into the same functions from two threads, every single-preemption interleaving (line granularity quick, bytecode granularity thorough) '
                 'in a fresh interpreter state; results must match a sequential order.')


import json as _json
import os as _os
ADDITIONS = _json.load(open(_os.path.join(_os.path.dirname(__file__), 'manifest_additions.json')))


def fill(reg0):
    def reg(pid, category, text, note, technique, design_ref, engine):
        text += ADDITIONS.get(pid, '')
        if pid in ('C06', 'C07', 'C14', 'C15', 'C16', 'C19'):
            text += ENGINE_C_NOTE
            technique += ' + exhaustive single-preemption interleaving of call pairs'
        reg0(pid, category, text, note, technique, design_ref, engine)

    reg('C07', 'model_checking',
        'Complete enumeration of the finite domain (35 bids x 3 doubling states x 4 vulnerabilities x 4 declarers x 14 '
        'trick counts + passed-out contracts) through the public calc_score, compared with an independent Law-77 formula.',
        'Trusted: the formula oracle mc/ref/score.py (cross-checked against known scores in selftest).',
        'exhaustive enumeration of a finite input domain against a reference model', 'DESIGN.md 4/C07', 'A-sequential')

    A = 'A-sequential'
    reg('C01', 'model_checking',
        'Explicit-state search of the real BiddingPhase: complete canonical state graph per dealer (6154 states), all 38 calls '
        'offered in every state (legal or not); verdict, 38-slot vector and unchanged-on-reject compared with a history-based '
        'reference on every transition; unmerged cross-check and long walks up to the 319-call maximal auction.',
        'Trusted: mc/ref/auction.py; merge key soundness argument in DESIGN.md 4/C01 (checked differentially at merge time and by '
        'the unmerged enumeration).',
        'explicit-state model checking of the implementation against a reference model', 'DESIGN.md 4/C01', A)
    reg('C02', 'model_checking',
        'Same complete state graph as C01 with the rotation/termination oracle: seat on turn = dealer rotated by the history length, '
        'per-seat shares, FINISHED exactly on the closing call, and in every finished state each of the 38 calls raises and changes nothing.',
        'Trusted: mc/ref/auction.py (finished = 4 opening passes or 3 passes after any bid/X/XX).',
        'explicit-state model checking of the implementation against a reference model', 'DESIGN.md 4/C02', A)
    reg('C03', 'model_checking',
        'State graph of the real BiddingPhase with one cell of the first-to-name table in the key (2 of 10 projections quick, all 10 thorough, x 4 dealers); '
        'contract(), the whole table, vulnerability and declarer compared with the reference on every transition; None before the end.',
        'Trusted: mc/ref/auction.py; projection argument (take_bid/contract touch one table cell) in DESIGN.md 4/C03.',
        'explicit-state model checking of the implementation against a reference model', 'DESIGN.md 4/C03', A)
    reg('C15', 'model_checking',
        'Complete enumeration of every finite notation domain (52 cards, 52x52 ordered pairs, 38 calls, seats, vulnerabilities and spellings, all contracts x vul x declarer): '
        'each conversion and its inverse, injectivity, order vs index.',
        'Trusted: the literal notation tables in mc/props/C15.py.',
        'exhaustive enumeration of finite domains', 'DESIGN.md 4/C15', A)
    reg('C16', 'model_checking',
        'Every integer difference in a window 3x beyond the last threshold against the Law 78B table, boundedness, monotonicity, oddness; '
        'finite list of huge magnitudes; score_to_imp on all pairs of achievable scores.',
        'Trusted: IMP rows typed from Law 78B in mc/ref/score.py; above 4000 the implementation scan is constant (read from the code).',
        'exhaustive enumeration over a bounded window plus structured large values', 'DESIGN.md 4/C16', A)

    B = 'B-schedules'
    reg('C09', 'model_checking',
        'Stateless model checking of the real Server.run + 4 PlayerThread.run + 4 conforming scripted clients under a scheduler that owns '
        'every threading/queue/socket/time primitive: all schedules with <= d deviations from the default scheduler (d=1 quick, d=2 thorough), '
        'the 9 priority schedules (one thread starved as long as anything else can run), and a state-cached depth-first search without a deviation '
        'bound (capped number of executions) for sessions with sequential arrivals; also clients that stay connected after End of session, a network that delivers every message in two pieces, two table managers in one process; deadlock = no enabled thread, livelock = step horizon.',
        'Trusted: virtual Event/Barrier/Thread/Queue/socket models (bound to CPython by mc/sched/conformance.py); safe-operation reduction '
        '(SPSC channels, asserted at run time and cross-checked with every operation visible); sessions of 1-3 boards.',
        'stateless schedule exploration of the implementation with deviation bounding + state-cached unbounded DFS', 'DESIGN.md 3.2, 4/C09', B)
    reg('C08', 'model_checking',
        'Sessions of the real server against transcript players generated by a reference table manager: the parsed log must equal the '
        'reference records (ids, dealer, vulnerability, original deal, calls, tricks with leaders, contract, declarer, declarer-side tricks, '
        'score, EW = -NS, passed-out nulls) over a scenario menu (auction shapes, dealers x vulnerabilities, notations, letter cases, alerts, '
        'revoking play policies, board lists of length 1-3, thorough: every complete auction of <= 6 calls over 7 calls), and the log '
        'bytes must be identical across all explored schedules (<= d deviations + priority schedules).',
        'Trusted: reference models mc/ref/*.py; virtual primitives; scenario menus are bounded covers, not all sessions.',
        'bounded-exhaustive scenario enumeration + stateless schedule exploration against a reference model', 'DESIGN.md 4/C08', B)
    reg('C10', 'model_checking',
        'Same executions as C08 judged on the complete server->client message stream of each of the four connections, compared message by '
        'message (kind, payload) with the transcript of the reference table manager: own 13 cards only, dummy after the opening lead and before '
        'the second card to the three other seats, every call/card relayed once in order to the others, lead prompts to the controlling seat only, '
        'configured board header; plus a script-independent scan for foreign hands.',
        'Trusted: mc/ref/protocol.py (conversation grammar, DESIGN.md appendix A); comparison is on meaning, not wording.',
        'bounded-exhaustive scenario enumeration + stateless schedule exploration against a reference model', 'DESIGN.md 4/C10', B)

    reg('C19', 'model_checking',
        'Builder/parser pairs over complete finite domains (38 calls x 4 seats x 3 cases x 5 alert forms through the server\'s alert stripping and both parsers; 52 cards x 4 seats x 2 notations x 3 cases; '
        'board headers; lead prompts; team and connection lines over every name of length <= 2 of the admission alphabet; every hand of a reduced deck and all 8192 holdings per suit, own and dummy\'s) '
        'and explicit enumeration of transports for the framing: every chunking of short byte streams, boundary-straddling cuts of long ones, end of stream at every byte position; '
        'a spinning receiver is recognised exactly (repeated empty reads after end of stream).',
        'Trusted: the fake byte-level connection (recv never crosses a chunk, b\'\' after close: the documented socket behaviour); alphabets and lengths as stated in the evidence.',
        'bounded-exhaustive enumeration of inputs, chunkings and end-of-stream positions on the real code', 'DESIGN.md 4/C19', A)

    reg('C12', 'model_checking',
        'Operation sequences open, write^k, close (k = 0..3, manual and context manager) of the real JsonLogWriter over per-field menus (all 105 contracts + both passed-out encodings, seats x vulnerabilities x dealers, '
        'auctions up to the 319-call maximum, 0..13 recorded tricks, dda, Unicode names/ids, every scoring name, extreme scores) and ordered pairs/triples of a record pool; every document must be one JSON value, '
        'validate against the shipped Draft-7 log schema (cross-file $ref resolved), be read back by parse_board_logs field by field as value objects and by parse_board_settings as the same boards.',
        'Trusted: jsonschema Draft7Validator + referencing registry; menus are bounded covers of the unbounded record space.',
        'bounded-exhaustive enumeration of writer operation sequences with round-trip and schema oracles', 'DESIGN.md 4/C12', A)

    reg('C17', 'model_checking',
        'JSON: JsonBoardSettingWriter operation sequences (0..3 boards, dda patterns, every id of length <= 2 over the stated alphabet) read back by parse_board_settings. PBN: files rendered by an independent '
        'reference renderer over the admissible layouts (full product header x LF/CRLF x blank kind x blank-line runs before/between/after x final line end for 1-2 boards, 24 tag orders x 4 first seats, '
        'extra tags/table rows/repeated tags, 7 vulnerability spellings, ids) read by PbnParser.parse_board_settings; the boards read must equal the boards rendered, in order.',
        'Trusted: the PBN renderer mc/ref/pbn.py; layouts and ids are the stated finite menus.',
        'bounded-exhaustive enumeration of file layouts against a reference renderer', 'DESIGN.md 4/C17', A)
    reg('C18', 'model_checking',
        'PbnWriter operation sequences ([header] + 1..3 board results; ordered pairs/triples of a result pool; all 105 contracts, declarers x results, dealers x vulnerabilities, void deals, names over the stated alphabet '
        'in all name fields and at the 253/254/255-character line boundary) read back by PbnParser.parse_all (one game per board, 15 mandatory tags with the written values) and parse_board_settings; every physical line <= 255.',
        'Trusted: the independent Deal-tag reader in mc/ref/pbn.py; menus as stated.',
        'bounded-exhaustive enumeration of writer operation sequences with a round-trip oracle', 'DESIGN.md 4/C18', A)

    reg('C14', 'model_checking',
        'Structured covers of the deal space, each enumerated completely: seat x suit x all 8192 holdings, all void patterns and complete-suit hands, all 16 partial-deal patterns, encode/mutate/re-encode histories on one object, '
        'and the random dealer under every rotation and transposition of the pack; every deal through PBN from all four first seats, tuple and numpy binary (two dtypes) and JSON lists, with canonical-form checks on the text.',
        'Trusted: independent PBN text renderer mc/ref/pbn.py; assumption that the codecs treat seats and suits independently (stated in the evidence; exhaustive: false).',
        'bounded-exhaustive enumeration over structured covers with round-trip oracles', 'DESIGN.md 4/C14', A)

    reg('C04', 'model_checking',
        'Three layers on the real play engine: every ordered 4-tuple of distinct cards (16-card deck quick, full deck thorough) x 5 denominations x declarers through play_card; explicit-state BFS of the board bookkeeping '
        '(trick number, leader, counts) over trick shapes x winner positions; whole boards with hands - every play-out with <= d departures from the lowest-legal-card line (revokes included) and all deals of 2 cards per seat '
        'from an 8-card deck x all play orders - compared with a reference model after every card (winner, next leader, credit, clockwise turns, history entries, end after 13 tricks).',
        'Trusted: mc/ref/play.py; the L2 merge key argument (DESIGN.md 4/C04).',
        'explicit-state and deviation-bounded exhaustive exploration of the implementation against a reference model', 'DESIGN.md 4/C04', A)
    reg('C05', 'fault_enumeration',
        'Same play-outs as C04-L3 on PlayingPhaseWithHands and four ObservedPlayingPhase objects with fault injection: at every position of the default play-outs and around every departure, every refusable play '
        '(out of turn by each other seat, card held by another seat, card already played, any play after the last card) must raise and leave the full attribute snapshot unchanged; hands + played cards partition the deal in every state.',
        'Trusted: mc/ref/play.py; observers are only asked about hands they can see.',
        'exhaustive fault injection at every position of bounded-exhaustive play-outs', 'DESIGN.md 4/C05', A)
    reg('C06', 'model_checking',
        'Static helper on complete structured covers (all hands of a 12-card deck x every lead; per suit all 8192 holdings x rests x all 13 ranks led), the state-dependent playable sets of every seat and of every observer '
        '(own and dummy) in every state of the C04-L3 play-outs, and RandomPlay with random.choice enumerated over every index in every state of default and sampled-departure play-outs.',
        'Trusted: mc/ref/play.py playable(); enumerating chooser replaces the random module inside playing_system.',
        'bounded-exhaustive enumeration of inputs and reachable states against a reference model', 'DESIGN.md 4/C06', A)
    reg('C11', 'model_checking',
        'In process: four single-seat observers fed the public plays in lock-step with the full-information engine over all C04-L3 play-outs (revokes included), public state compared after every play, no observer may reject '
        'an accepted play. Over the protocol: sessions of the real server with four bundled Clients under the virtual scheduler (enumerated bidding/playing policies, <= 1 schedule deviation), both ends\' contract and play state recorded and compared.',
        'Trusted: mc/ref/play.py, virtual primitives (Engine B).',
        'deviation-bounded exhaustive exploration of replicas in lock-step + stateless schedule exploration', 'DESIGN.md 4/C11', 'B-schedules')

    reg('C13', 'fault_enumeration',
        'The real Server.run and seat threads under the virtual scheduler with a fault at every abort point of sessions of 1-3 boards: at every call position / card position of every board the seat on turn sends an offending message '
        '(insufficient bid, inadmissible double/redouble, unparseable call, level 0/8, wrong seat name, gibberish; unparseable card, card of another seat, card already played), and KeyboardInterrupt is raised in the main thread in place of '
        'its synchronisation operations from the first deal to the end; the file must be closed, parse as JSON, satisfy the schema and hold exactly the reference records of the boards finished before the abort.',
        'Trusted: virtual primitives; reference records mc/ref/protocol.py; an interrupt is delivered at a synchronisation operation (not in the middle of a record write).',
        'exhaustive fault injection at every abort point of scripted sessions on the real code', 'DESIGN.md 4/C13', B)

    reg('C20', 'model_checking',
        'Admission on the real server under the virtual scheduler. Sequential: the complete graph of seat tables reachable with three team names (one empty); in every non-full state each of the 24 request types (4 seats x 3 teams x versions 18/17) '
        'is executed as history + request + completing requests with clients arriving one by one, then one passed-out board; every verdict, team line, conversation and the closing of refused connections compared with the reference admission rules. '
        'Concurrent: client sets of 5-6 peers started at once, all schedules with <= d deviations (connect order, verdict event, thread start/is_alive, seat-table accesses are scheduling points), judged on the accept order observed.',
        'Trusted: virtual primitives, reference admission rules in mc/props/C20.py; arrival orders in which no acceptable request is left for a seat are outside the property\'s premise and are counted, not judged.',
        'explicit-state exploration of the admission graph on the implementation + stateless schedule exploration', 'DESIGN.md 4/C20', B)
