def fill(reg):
    reg('C07', 'model_checking',
        'Complete enumeration of the finite domain (35 bids x 3 doubling states x 4 vulnerabilities x 4 declarers x 14 '
        'trick counts + passed-out contracts) through the public calc_score, compared with an independent Law-77 formula.',
        'Trusted: the formula oracle mc/ref/score.py (cross-checked against known scores in selftest).',
        'exhaustive enumeration of a finite input domain against a reference model', 'DESIGN.md 4/C07', 'A-sequential')
