def fill(reg):
    reg('C07', 'model_checking',
        'Complete enumeration of the finite domain (35 bids x 3 doubling states x 4 vulnerabilities x 4 declarers x 14 '
        'trick counts + passed-out contracts) through the public calc_score, compared with an independent Law-77 formula.',
        'Trusted: the formula oracle mc/ref/score.py (cross-checked against known scores in selftest).',
        'exhaustive enumeration of a finite input domain against a reference model', 'DESIGN.md 4/C07', 'A-sequential')

    A = 'A-sequential'
    reg('C01', 'model_checking',
        'Explicit-state search of the real BiddingPhase: complete canonical state graph per dealer (6154 states), all 38 calls '
        'offered in every state (legal or not); verdict, 38-slot vector and unchanged-on-reject compared with a history-based '
        'reference on every transition; unmerged cross-check and long walks up to the 319-call maximal auction.',
        'Trusted: mc/ref/auction.py; merge key soundness argument in DESIGN.md 4/C01 (checked differentially at merge time and by '
        'the unmerged enumeration).',
        'explicit-state model checking of the implementation against a reference model', 'DESIGN.md 4/C01', A)
    reg('C02', 'model_checking',
        'Same complete state graph as C01 with the rotation/termination oracle: seat on turn = dealer rotated by the history length, '
        'per-seat shares, FINISHED exactly on the closing call, and in every finished state each of the 38 calls raises and changes nothing.',
        'Trusted: mc/ref/auction.py (finished = 4 opening passes or 3 passes after any bid/X/XX).',
        'explicit-state model checking of the implementation against a reference model', 'DESIGN.md 4/C02', A)
    reg('C03', 'model_checking',
        'State graph of the real BiddingPhase with one cell of the first-to-name table in the key (2 of 10 projections quick, all 10 thorough, x 4 dealers); '
        'contract(), the whole table, vulnerability and declarer compared with the reference on every transition; None before the end.',
        'Trusted: mc/ref/auction.py; projection argument (take_bid/contract touch one table cell) in DESIGN.md 4/C03.',
        'explicit-state model checking of the implementation against a reference model', 'DESIGN.md 4/C03', A)
    reg('C15', 'model_checking',
        'Complete enumeration of every finite notation domain (52 cards, 52x52 ordered pairs, 38 calls, seats, vulnerabilities and spellings, all contracts x vul x declarer): '
        'each conversion and its inverse, injectivity, order vs index.',
        'Trusted: the literal notation tables in mc/props/C15.py.',
        'exhaustive enumeration of finite domains', 'DESIGN.md 4/C15', A)
    reg('C16', 'model_checking',
        'Every integer difference in a window 3x beyond the last threshold against the Law 78B table, boundedness, monotonicity, oddness; '
        'finite list of huge magnitudes; score_to_imp on all pairs of achievable scores.',
        'Trusted: IMP rows typed from Law 78B in mc/ref/score.py; above 4000 the implementation scan is constant (read from the code).',
        'exhaustive enumeration over a bounded window plus structured large values', 'DESIGN.md 4/C16', A)
