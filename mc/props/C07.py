"""C07 - every contract and result scores what the duplicate table says (complete finite domain)."""
from bridge_env import Bid, Contract
from bridge_env.score import calc_score as _calc_score

from .. import adapt
from ..core import Counter, Result
from ..ref import score as R
from ..ref.auction import BIDS

calc_score = adapt.shaped(_calc_score)      # every question is also asked with the arguments passed by keyword


def run(tier, seed, workers):
    c = Counter()
    for bid in BIDS:
        level, denom = int(bid[0]), bid[1:]
        for dbl in (0, 1, 2):
            for vul in adapt.VULS:
                for decl in adapt.SEATS:
                    con = adapt.mk_contract(bid, dbl, vul, decl)
                    v = R.side_vulnerable(vul, decl)
                    for tricks in range(14):
                        exp = R.duplicate_score(level, denom, dbl, v, tricks)
                        try:
                            got = calc_score(con, tricks)
                        except Exception as e:  # noqa
                            got = f'raised {type(e).__name__}: {e}'
                        c.inc('evals')
                        c.see('scores', got if isinstance(got, int) else -1)
                        c.see('cls', (level, denom in 'CD', denom == 'NT', dbl, v, tricks))
                        if got != exp:
                            c.violate(f'score:{bid}:{dbl}:{vul}:{decl}:{tricks}',
                                      f'calc_score({bid} dbl={dbl} vul={vul} declarer={decl}, tricks={tricks}) = {got}, '
                                      f'duplicate table says {exp}',
                                      {'kind': 'score', 'bid': bid, 'dbl': dbl, 'vul': vul, 'decl': decl,
                                       'tricks': tricks, 'expected': exp, 'ordinal': c.get('evals')})
                        if c.get('evals') % 5000 == 1:
                            c.sample({'contract': bid + 'X' * dbl, 'vul': vul, 'declarer': decl, 'tricks': tricks,
                                      'score': got})
    # the same domain once more with a FRESH Contract object for every call (as a caller that scores board after board does) and the
    # declarer varying fastest: anything remembered from the previous call - by value or by object identity - meets a different side
    for bid in BIDS:
        level, denom = int(bid[0]), bid[1:]
        for dbl in (0, 1, 2):
            for tricks in range(14):
                for vul in adapt.VULS:
                    for decl in adapt.SEATS:
                        exp = R.duplicate_score(level, denom, dbl, R.side_vulnerable(vul, decl), tricks)
                        try:
                            got = calc_score(adapt.mk_contract(bid, dbl, vul, decl), tricks)
                        except Exception as e:  # noqa
                            got = f'raised {type(e).__name__}: {e}'
                        c.inc('evals')
                        c.inc('fresh_contract_calls')
                        if got != exp:
                            c.violate(f'score-fresh-object:{bid}:{dbl}:{vul}:{decl}:{tricks}',
                                      f'calc_score(a fresh Contract {bid} dbl={dbl} vul={vul} declarer={decl}, tricks={tricks}) = {got}, duplicate table says {exp} '
                                      f'(call number {c.get("fresh_contract_calls")} of a board-after-board sequence)',
                                      {'kind': 'score-seq', 'upto': c.get('fresh_contract_calls')})
    # passed-out contracts (both encodings), every vulnerability, every trick count, with and without a declarer
    for fb in (None, Bid.Pass):
        for vul in adapt.VULS:
            for decl in (None,) + tuple(adapt.SEATS):
                for tricks in range(14):
                    con = Contract(final_bid=fb, vul=adapt.VUL[vul], declarer=adapt.PL[decl] if decl else None)
                    try:
                        got = calc_score(con, tricks)
                    except Exception as e:  # noqa
                        got = f'raised {type(e).__name__}: {e}'
                    c.inc('evals')
                    c.inc('passed_out')
                    if got != 0:
                        c.violate(f'passedout:{fb}:{vul}:{decl}:{tricks}',
                                  f'passed-out contract (final_bid={fb}, vul={vul}, declarer={decl}) with {tricks} tricks '
                                  f'scored {got}, expected 0',
                                  {'kind': 'passedout', 'fb': None if fb is None else 'Pass', 'vul': vul, 'decl': decl,
                                   'tricks': tricks})
    n = c.get('evals')
    cov = {
        'states': n, 'transitions': n, 'traces_validated_against_impl': n,
        'evaluations': n, 'distinct_nontrivial': c.distinct('cls'),
        'distinct_scores': c.distinct('scores'), 'passed_out_cases': c.get('passed_out'),
        'rule': 'complete product 35 bids x 3 doubling states x 4 board vulnerabilities x 4 declarers x 14 trick counts '
                'through calc_score(Contract, tricks) + passed-out contracts (None and Bid.Pass) x 4 vul x 5 declarers x 14; '
                'distinct = (level, minor?, NT?, doubling, declarer-side vulnerable, tricks) classes',
        'samples': c.samples, 'exhaustive': True,
    }
    return Result(cov, c.violations, ['reference = Law 77 formula (mc/ref/score.py), independent of the tables in score.py'])


def replay(d):
    if d['kind'] == 'score-seq':
        n = 0
        for bid in BIDS:
            for dbl in (0, 1, 2):
                for tricks in range(14):
                    for vul in adapt.VULS:
                        for decl in adapt.SEATS:
                            exp = R.duplicate_score(int(bid[0]), bid[1:], dbl, R.side_vulnerable(vul, decl), tricks)
                            got = calc_score(adapt.mk_contract(bid, dbl, vul, decl), tricks)
                            n += 1
                            if got != exp:
                                return True, f'call {n} of the sequence: calc_score({bid} dbl={dbl} vul={vul} declarer={decl}, {tricks}) = {got}, expected {exp}'
                            if n >= d['upto']:
                                return False, 'sequence replayed without a wrong score'
    if d['kind'] == 'score':
        if d.get('ordinal'):
            # first in the original order of the enumeration up to this input (a failure may depend on the calls made before it:
            # hidden state); an isolated call first would itself change such state
            n = 0
            for bid in BIDS:
                for dbl in (0, 1, 2):
                    for vul in adapt.VULS:
                        for decl in adapt.SEATS:
                            c2 = adapt.mk_contract(bid, dbl, vul, decl)
                            for tricks in range(14):
                                g = calc_score(c2, tricks)
                                n += 1
                                if n == d['ordinal'] and g != d['expected']:
                                    return True, f"after the {n - 1} preceding calls of the enumeration calc_score -> {g}, expected {d['expected']}"
        con = adapt.mk_contract(d['bid'], d['dbl'], d['vul'], d['decl'])
        got = calc_score(con, d['tricks'])
        return got != d['expected'], f"calc_score -> {got}, expected {d['expected']}"
    con = Contract(final_bid=None if d['fb'] is None else Bid.Pass, vul=adapt.VUL[d['vul']],
                   declarer=adapt.PL[d['decl']] if d['decl'] else None)
    got = calc_score(con, d['tricks'])
    return got != 0, f'calc_score -> {got}, expected 0'


from ..conc import driver as _conc  # noqa: E402
_conc.wrap(globals(), 'C07')
