"""Explicit-state exploration of the real BiddingPhase (shared by C01, C02, C03).

State graph: nodes = canonical states of the real object, edges = each of the 38 calls offered (legal or not).
Oracle on every transition: history-based reference model mc/ref/auction.py.  Violations are tagged with the
property they belong to; each of C01/C02/C03 runs the search itself and reports its own tag."""
from __future__ import annotations

import copy
import enum
import time
from collections import deque
from typing import Any, Dict, List, Optional, Tuple

import numpy as np

from bridge_env import Bid, BiddingPhase, BiddingPhaseState, Contract, Pair, Player, Vul

from .. import adapt
from ..core import Counter
from ..ref import auction as R

CALLS = R.CALLS
CALL_OBJS = [adapt.call_obj(n) for n in CALLS]
BIDSTR = {b: str(b) for b in Bid}
UNIT_TIME_BOX = 240.0          # seconds per graph unit; a unit that needs longer is cut (reported as a cap, exhaustive: false)
HISTORY_ONLY_SUFFIXES = ('__bid_history', '__players_bid_history', '__declarer_check')


_ATOMS = (int, str, bool, float, type(None), bytes)
_ENUM_T: Dict[type, bool] = {}
_IMMUTABLE_T = set(_ATOMS)


def freeze(v):
    t = type(v)
    if t in _IMMUTABLE_T:
        return v
    e = _ENUM_T.get(t)
    if e is None:
        e = _ENUM_T[t] = isinstance(v, enum.Enum)
    if e:
        return v._name_
    if t is list or t is tuple:
        return tuple([freeze(x) for x in v])
    if t is dict:
        return tuple([(freeze(k), freeze(x)) for k, x in v.items()])
    if t is np.ndarray:
        return ('nd', v.dtype.str, v.shape, v.tobytes())
    if t is set or t is frozenset:
        return tuple(sorted(freeze(x) for x in v))
    if isinstance(v, Contract):
        return ('contract', freeze(v.final_bid), v.x, v.xx, freeze(v.vul), freeze(v.declarer))
    # an object the explorer does not understand (an iterator, a lock, a cache object a refactoring introduced): its identity must not
    # make every state distinct; it is represented by its type only (soundness of merging is then left to the per-transition oracle,
    # the differential merge check and the unmerged cross-check)
    return ('opaque', type(v).__name__)


def fastcopy(v):
    """Structural copy of lists/dicts/sets/arrays; enums and atoms are shared; anything else is deep-copied."""
    t = type(v)
    if t in _IMMUTABLE_T or _ENUM_T.get(t) or (t not in _ENUM_T and isinstance(v, enum.Enum)):
        return v
    if t is list:
        return [fastcopy(x) for x in v]
    if t is dict:
        return {k: fastcopy(x) for k, x in v.items()}
    if t is np.ndarray:
        return v.copy()
    if t is set:
        return {fastcopy(x) for x in v}
    return copy.deepcopy(v)


def same_value(a, b) -> bool:
    if type(a) is not type(b):
        return False
    t = type(a)
    if t is np.ndarray:
        return a.dtype == b.dtype and a.shape == b.shape and a.tobytes() == b.tobytes()
    if t in _IMMUTABLE_T or t in (list, tuple, dict, set, frozenset) or isinstance(a, (enum.Enum, Contract)):
        try:
            return bool(a == b)
        except Exception:  # e.g. containers holding arrays
            return freeze(a) == freeze(b)
    # an object the explorer does not understand (an iterator, a lock, ...): equality would be identity, and a copy is never identical
    return freeze(a) == freeze(b)


def same_state(o, saved) -> bool:
    """Is the complete attribute dictionary of `o` equal to that of the saved clone?"""
    d, e = vars(o), vars(saved)
    if d.keys() != e.keys():
        return False
    for k, v in d.items():
        if not same_value(v, e[k]):
            return False
    return True


def changed(o, saved, c: Counter) -> bool:
    """Did a refused call change the auction?  A difference in the attribute snapshot counts only if it can be OBSERVED: in the
    public state (history, per-seat lists, turn, availability vector, contract) or in the answer to any of the 38 calls offered
    next.  A private attribute that changed without any observable effect (a cache filled, a counter of refusals) is recorded in
    the evidence and is not a violation - the statement speaks of history, turn and available calls."""
    if same_state(o, saved):
        return False
    d, e = vars(o), vars(saved)
    diff = frozenset(k for k in set(d) | set(e) if k not in d or k not in e or not same_value(d[k], e[k]))
    seen_benign = _BENIGN_DIFF.setdefault(type(o), {})
    if seen_benign.get(diff, 0) >= 3:
        # these attributes have been found to change without observable effect several times already (a counter, a cache): not probed again
        c.inc('private_state_changed_without_observable_effect')
        return False

    def futures(x):
        out = []
        for idx in range(38):
            y = clone(x)
            r = apply_call(y, idx)
            out.append((fmt(r) if not isinstance(r, Exception) else type(r).__name__, _pub(y)))
        return out
    if _pub(o) != _pub(saved) or futures(o) != futures(saved):
        return True
    c.inc('private_state_changed_without_observable_effect')
    seen_benign[diff] = seen_benign.get(diff, 0) + 1
    return False


_BENIGN_DIFF: Dict[type, dict] = {}
_TABLE_ATTR: Dict[type, Optional[str]] = {}


def _pub(o):
    try:
        con = o.contract()
        con = None if con is None else (str(con), con.x, con.xx, str(con.vul), str(con.declarer))
    except Exception as e:  # noqa
        con = type(e).__name__
    ob = observe(o)
    return (ob['active'], ob['done'], tuple(ob['history']), tuple(sorted((k, tuple(v)) for k, v in ob['per_seat'].items())),
            tuple(ob['mask']) if isinstance(ob['mask'], list) else ob['mask'], con)


_OWN_COPY: Dict[type, bool] = {}


def clone(o):
    """Independent copy of an auction object.  If the class defines its own copy protocol (__deepcopy__ / __copy__) that protocol is
    what users of the library get from copy.deepcopy, so it is what the search uses: a copy that shares anything with its original
    then shows up as cross-talk between branches of the search."""
    t = type(o)
    own = _OWN_COPY.get(t)
    if own is None:
        own = _OWN_COPY[t] = (getattr(t, '__deepcopy__', None) is not None or getattr(t, '__copy__', None) is not None
                              or getattr(t, '__reduce_ex__', None) is not object.__reduce_ex__ or getattr(t, '__getstate__', object.__getstate__) is not object.__getstate__)
    if own:
        return copy.deepcopy(o)
    n = object.__new__(t)
    n.__dict__.update({k: fastcopy(v) for k, v in vars(o).items()})
    return n


def dump(o) -> tuple:
    d = vars(o)
    return tuple((k, freeze(d[k])) for k in sorted(d))


def history_only(k: str, v, nhist: int = -1) -> bool:
    """Is this attribute one of the history-only fields (the call lists, the per-seat call lists, the first-to-name table, a plain
    count of the calls made)?  Recognised by SHAPE, not by name, so that renaming private attributes does not change the search:
    a list of calls; a dict whose values are lists of calls; a (possibly nested) dict whose leaves are seats or None; an int equal
    to the number of calls accepted so far."""
    if k.endswith(HISTORY_ONLY_SUFFIXES):
        return True
    t = type(v)
    if t is list:
        return all(isinstance(x, Bid) for x in v)
    if t is int and not isinstance(v, bool):
        return nhist >= 0 and v == nhist and nhist > 3
    if t is dict and v:
        vals = list(v.values())
        if all(type(x) is list and all(isinstance(y, Bid) for y in x) for x in vals):
            return True
        leaves = []
        for x in vals:
            leaves.extend(x.values() if type(x) is dict else [x])
        if leaves and all(y is None or isinstance(y, Player) for y in leaves) and any(isinstance(kk, (Pair, tuple)) for kk in v):
            return True
    return False


_HIST_NAMES: Dict[type, frozenset] = {}


def hist_names(o) -> frozenset:
    """Names of the history-only attributes of this class, found once by shape on a probe auction (cached per class)."""
    t = type(o)
    names = _HIST_NAMES.get(t)
    if names is None:
        probe = t(dealer=Player.N, vul=Vul.NONE)
        calls = [Bid.C1, Bid.X, Bid.XX, Bid.D1, Bid.Pass, Bid.H2]
        for b in calls:
            probe.take_bid(b)
        found = set()
        for k, v in vars(probe).items():
            if history_only(k, v, len(calls)):
                found.add(k)
        names = _HIST_NAMES[t] = frozenset(found)
    return names


def canon(o: BiddingPhase, hist: List[str], cell: Optional[Tuple[str, str]]) -> tuple:
    """Key = complete attribute dump minus the history-only fields, plus what the code can still read of them:
    min(len(history),3), the last two calls, and (C03 projections) one cell of the first-to-name table."""
    d = vars(o)
    hn = hist_names(o)
    core = tuple((k, freeze(v)) for k, v in sorted(d.items()) if k not in hn)
    extra: tuple = (min(len(hist), 3), tuple(hist[-2:]))
    if cell is not None:
        extra += (R.first_namers(hist, o.dealer.name).get(cell),)
    return core + extra


def non_history_part(o) -> tuple:
    d = vars(o)
    hn = hist_names(o)
    return tuple((k, freeze(v)) for k, v in sorted(d.items()) if k not in hn)


def observe(o: BiddingPhase) -> dict:
    """Everything observable through the public API."""
    mask = o.available_bid
    return {
        'active': o.active_player._name_ if o.active_player is not None else None,
        'done': o.has_done(),
        'history': [BIDSTR[b] for b in o.bid_history],
        'per_seat': {p._name_: [BIDSTR[b] for b in l] for p, l in o.players_bid_history.items()},
        'mask': [float(x) for x in mask] if getattr(mask, 'shape', None) == (38,) else repr(mask),
        'dealer': o.dealer._name_,
        'vul': adapt.VUL_NAME.get(o.vul),
    }


def table_of(o: BiddingPhase) -> Optional[dict]:
    """The first-to-name table, if the object keeps one in the nested pair -> denomination -> seat form (a differently organised table
    is not inspected; contract() is the public view of it anyway)."""
    t = type(o)
    if t not in _TABLE_ATTR:
        _TABLE_ATTR[t] = next((k for k, v in vars(o).items() if type(v) is dict and v and all(
            isinstance(p, Pair) and type(row) is dict and all(isinstance(pl, Player) or pl is None for pl in row.values()) for p, row in v.items())), None)
    k = _TABLE_ATTR[t]
    if k is None:
        return None
    try:
        return {(pair.name, suit.name): (pl.name if pl is not None else None) for pair, row in vars(o)[k].items() for suit, pl in row.items()}
    except (AttributeError, KeyError):
        return None


def check_state(o: BiddingPhase, hist: List[str], dealer: str, vul: str, c: Counter, where: str):
    """Compare the real object's observable state with the reference model for `hist`."""
    ob = observe(o)
    fin = R.finished(hist)
    rp = {'kind': 'auction', 'dealer': dealer, 'vul': vul, 'history': list(hist)}
    exp_active = None if fin else R.seat_at(dealer, len(hist))
    if ob['active'] != exp_active:
        c.violate(f'C02:turn:{where}', f'after {hist} (dealer {dealer}) the seat on turn is {ob["active"]}, expected {exp_active}', rp)
    if ob['done'] != fin:
        c.violate(f'C02:done:{where}', f'after {hist} has_done() = {ob["done"]}, the auction is '
                                        f'{"over" if fin else "not over"}', rp)
    if ob['history'] != hist:
        c.violate(f'C02:history:{where}', f'common history {ob["history"]} != calls accepted {hist}', rp)
    if ob['per_seat'] != R.per_seat(hist, dealer):
        c.violate(f'C02:per_seat:{where}', f'per-seat lists {ob["per_seat"]} are not the shares of {hist} from dealer {dealer}', rp)
    if ob['dealer'] != dealer or ob['vul'] != vul:
        c.violate(f'C03:config:{where}', f'dealer/vul reported as {ob["dealer"]}/{ob["vul"]}, configured {dealer}/{vul}', rp)
    if not fin:
        legal = R.legal(hist, dealer)
        exp_mask = [1.0 if n in legal else 0.0 for n in CALLS]
        if ob['mask'] != exp_mask:
            if isinstance(ob['mask'], list):
                adv = {n for n, x in zip(CALLS, ob['mask']) if x == 1.0}
                odd = [x for x in ob['mask'] if x not in (0.0, 1.0)]
                msg = (f'after {hist} (dealer {dealer}) the availability vector advertises extra {sorted(adv - legal)}, '
                       f'misses {sorted(legal - adv)}, non-binary entries {odd}')
            else:
                msg = f'availability vector has the wrong shape: {ob["mask"]}'
            c.violate(f'C01:mask:{where}', msg, rp)
    # contract
    try:
        con = o.contract()
    except Exception as e:  # noqa
        con = f'raised {type(e).__name__}: {e}'
    if not fin:
        if con is not None:
            c.violate(f'C03:early:{where}', f'contract() = {con} before the auction has ended ({hist})', rp)
    else:
        exp = R.contract(hist, dealer)
        if not isinstance(con, Contract):
            c.violate(f'C03:contract:{where}', f'contract() = {con!r} after finished auction {hist}', rp)
        elif exp is None:
            if not (con.is_passed_out() and con.declarer is None and con.vul is adapt.VUL[vul]
                    and adapt.doubling_status(con) == 0):
                c.violate(f'C03:passedout:{where}', f'passed-out auction {hist}: contract() = {con!r}', rp)
        else:
            got = (str(con.final_bid), adapt.doubling_status(con), con.declarer.name if con.declarer else None,
                   adapt.VUL_NAME.get(con.vul), con.is_passed_out())
            want = (exp[0], exp[1], exp[2], vul, False)
            if got != want:
                c.violate(f'C03:contract:{where}', f'auction {hist} (dealer {dealer}, vul {vul}): contract (bid, doubling, declarer, vul, '
                                                    f'passed_out) = {got}, expected {want}', rp)
    # first-to-name table (whole table, whichever projection is running)
    tab = table_of(o)
    if tab is not None:
        want = R.first_namers(hist, dealer)
        got = {k: v for k, v in tab.items() if v is not None}
        if got != want:
            c.violate(f'C03:table:{where}', f'first-to-name table {got} != {want} after {hist} (dealer {dealer})', rp)


def apply_call(o: BiddingPhase, idx: int):
    try:
        return o.take_bid(CALL_OBJS[idx])
    except Exception as e:  # noqa
        return e


def explore(dealer: str, vul: str, cell: Optional[Tuple[str, str]], c: Counter, max_states: int = 80_000,
            alphabet: Optional[List[int]] = None, merge: bool = True, max_depth: int = 10 ** 9):
    """BFS over canonical states; every call of `alphabet` (default all 38) offered in every state."""
    alphabet = list(range(38)) if alphabet is None else alphabet
    o0 = BiddingPhase(dealer=adapt.PL[dealer], vul=adapt.VUL[vul])
    check_state(o0, [], dealer, vul, c, 'init')
    seen: Dict[Any, tuple] = {}
    k0 = canon(o0, [], cell) if merge else ()
    seen[k0] = non_history_part(o0)
    frontier = deque([(o0, [])])
    after_refusal: set = set()
    keep_alive: list = []
    t_start = time.time()
    while frontier:
        if time.time() - t_start > UNIT_TIME_BOX:
            c.inc('cap_hit')
            c.inc('time_boxed_units')
            break
        if c.enough():
            c.inc('stopped_early_after_violations')
            break
        o, hist = frontier.popleft()
        o_orig = o
        c.mx('max_depth', len(hist))
        before = clone(o)
        fin_ref = R.finished(hist)
        fin_impl = o.has_done()
        if fin_ref or fin_impl:
            c.inc('finished_states')
            # every further call must be refused with an error and change nothing
            for idx in alphabet:
                c.inc('transitions')
                c.inc('refused_after_end')
                r = apply_call(o, idx)
                rp = {'kind': 'auction', 'dealer': dealer, 'vul': vul, 'history': list(hist), 'call': CALLS[idx]}
                if fin_ref and not isinstance(r, Exception):
                    c.violate(f'C02:after_end:{CALLS[idx]}', f'call {CALLS[idx]} after the finished auction {hist} returned {r} instead of raising', rp)
                if fin_ref and changed(o, before, c):
                    c.violate(f'C02:after_end_changed:{CALLS[idx]}', f'call {CALLS[idx]} after the finished auction {hist} changed the state', rp)
                    break
            continue
        if len(hist) >= max_depth:
            continue
        legal = R.legal(hist, dealer)
        for idx in alphabet:
            name = CALLS[idx]
            c.inc('transitions')
            rp = {'kind': 'auction', 'dealer': dealer, 'vul': vul, 'history': list(hist), 'call': name}
            if name not in legal:
                c.inc('illegal_offered')
                r = apply_call(o, idx)            # on the object itself: a refused call normally changes nothing, no copy needed
                if r is not BiddingPhaseState.ILLEGAL:
                    c.violate(f'C01:accepted_illegal:{klass(hist, name, dealer)}',
                              f'illegal call {name} after {hist} (dealer {dealer}) was answered {fmt(r)} instead of ILLEGAL', rp)
                    o = clone(before)
                    continue
                if not same_state(o, before):
                    o3, o = o, clone(before)
                    if changed(o3, before, c):
                        c.violate(f'C01:illegal_changed:{klass(hist, name, dealer)}',
                                  f'rejected/illegal call {name} after {hist} changed the auction state', rp)
                        continue
                    # something private changed without an effect that can be seen at once: the object after the refusal is a state of its
                    # own (same history) and is explored like any other, so that a later effect of the refusal meets the oracle
                    k3 = (canon(o3, hist, cell) if merge else tuple(hist)) + ('after-refusal',)
                    if k3 not in seen and len(seen) < max_states and id(o_orig) not in after_refusal:
                        # (one level only: a state that was itself reached by a refusal does not spawn further ones - a refusal
                        # counter would otherwise make the chain endless)
                        seen[k3] = non_history_part(o3) if merge else None
                        frontier.append((o3, hist))
                        after_refusal.add(id(o3))
                        keep_alive.append(o3)
                        c.inc('states_after_a_refusal')
                continue
            o2 = clone(o)
            r = apply_call(o2, idx)
            h2 = hist + [name]
            fin2 = R.finished(h2)
            if r is BiddingPhaseState.ILLEGAL or isinstance(r, Exception):
                c.violate(f'C01:refused_legal:{klass(hist, name, dealer)}',
                          f'legal call {name} after {hist} (dealer {dealer}) was answered {fmt(r)}', rp)
                if changed(o2, before, c):
                    c.violate(f'C01:illegal_changed:{klass(hist, name, dealer)}',
                              f'rejected call {name} after {hist} changed the auction state', rp)
                continue
            want = BiddingPhaseState.FINISHED if fin2 else BiddingPhaseState.ONGOING
            if r is not want:
                c.violate(f'C02:verdict:{"end" if fin2 else "ongoing"}:{min(len(h2), 5)}',
                          f'call {name} after {hist} returned {fmt(r)}, expected {want.name}', rp)
            check_state(o2, h2, dealer, vul, c, klass(hist, name, dealer))
            c.see('verdicts', (fmt(r), name if idx >= 35 else 'bid'))
            k = canon(o2, h2, cell) if merge else tuple(h2)
            if k in seen:
                c.inc('merges')
                if merge and seen[k] != non_history_part(o2):
                    c.violate('INTERNAL:merge', f'merge of states with different non-history parts at {h2}', rp)
                continue
            if len(seen) >= max_states:
                c.inc('cap_hit')
                continue
            seen[k] = non_history_part(o2) if merge else None
            frontier.append((o2, h2))
    c.inc('states', len(seen))
    return seen


def klass(hist, name, dealer) -> str:
    """Coarse situation class for violation keys (so that one defect yields few keys)."""
    k = R.last_nonpass(hist)
    if k is None:
        sit = 'nobid'
    else:
        me = R.seat_at(dealer, len(hist))
        who = R.seat_at(dealer, k)
        rel = 'own' if who == me else ('partner' if R.same_side(who, me) else 'opp')
        kind = 'bid' if R.is_bid(hist[k]) else hist[k]
        sit = f'{kind}-by-{rel}-p{len(hist) - 1 - k}'
    return f'{sit}:{name if not R.is_bid(name) else "bid"}'


def fmt(r):
    if isinstance(r, BiddingPhaseState):
        return r.name
    if isinstance(r, Exception):
        return f'raised {type(r).__name__}({r})'
    return repr(r)


def rebuild(dealer, vul, hist) -> BiddingPhase:
    o = BiddingPhase(dealer=adapt.PL[dealer], vul=adapt.VUL[vul])
    for n in hist:
        o.take_bid(adapt.call_obj(n))
    return o


def long_walks() -> List[List[str]]:
    """Histories executed unmerged: the 319-call maximal auction and other long shapes."""
    out = []
    mx = ['Pass'] * 3
    for b in R.BIDS:
        mx += [b, 'Pass', 'Pass', 'X', 'Pass', 'Pass', 'XX', 'Pass', 'Pass']
    mx += ['Pass']
    out.append(mx)
    w = []
    for b in R.BIDS:
        w += [b, 'Pass', 'Pass']
    out.append(w + ['Pass'])
    w = ['Pass']
    for b in R.BIDS:
        w += [b, 'X', 'XX']
    out.append(w + ['Pass'] * 3)
    w = ['Pass', 'Pass']
    for b in R.BIDS[::2]:
        w += [b, 'Pass', 'Pass', 'X', 'Pass']
    out.append(w + ['Pass'] * 2)
    w = []
    for b in R.BIDS:
        w += [b, 'X', 'Pass', 'Pass', 'XX', 'Pass']
    out.append(w + ['Pass'] * 2)
    return out


def run_walk(dealer: str, vul: str, walk: List[str], c: Counter, offer_all_every: int = 1):
    """Execute one long history on the real object, oracle after every call; all 38 calls offered at every prefix."""
    o = BiddingPhase(dealer=adapt.PL[dealer], vul=adapt.VUL[vul])
    hist: List[str] = []
    for name in walk:
        legal = R.legal(hist, dealer)
        before = clone(o)
        for idx, n2 in enumerate(CALLS):
            if n2 in legal:
                continue
            c.inc('transitions')
            r = apply_call(o, idx)
            rp = {'kind': 'auction', 'dealer': dealer, 'vul': vul, 'history': list(hist), 'call': n2}
            if r is not BiddingPhaseState.ILLEGAL:
                c.violate(f'C01:accepted_illegal:{klass(hist, n2, dealer)}', f'illegal call {n2} after a {len(hist)}-call history '
                                                                              f'was answered {fmt(r)}', rp)
                o = rebuild(dealer, vul, hist)
            elif changed(o, before, c):
                c.violate(f'C01:illegal_changed:{klass(hist, n2, dealer)}', f'rejected call {n2} after a {len(hist)}-call history changed the state', rp)
                o = rebuild(dealer, vul, hist)
        assert name in legal, (hist, name)
        c.inc('transitions')
        r = apply_call(o, CALLS.index(name))
        rp = {'kind': 'auction', 'dealer': dealer, 'vul': vul, 'history': list(hist), 'call': name}
        hist = hist + [name]
        if r is BiddingPhaseState.ILLEGAL or isinstance(r, Exception):
            c.violate(f'C01:refused_legal:long:{klass(hist[:-1], name, dealer)}', f'legal call {name} refused at length {len(hist) - 1}: {fmt(r)}', rp)
            return
        want = BiddingPhaseState.FINISHED if R.finished(hist) else BiddingPhaseState.ONGOING
        if r is not want:
            c.violate(f'C02:verdict:long', f'call {name} at length {len(hist) - 1} returned {fmt(r)}, expected {want.name}', rp)
        check_state(o, hist, dealer, vul, c, f'long:{klass(hist[:-1], name, dealer)}')
    c.mx('longest_history', len(hist))
    c.inc('long_walks')
    if not R.finished(hist):
        raise AssertionError('walk does not finish')
    before = clone(o)
    for idx in range(38):
        r = apply_call(o, idx)
        c.inc('transitions')
        if not isinstance(r, Exception) or changed(o, before, c):
            c.violate(f'C02:after_end:{CALLS[idx]}', f'call {CALLS[idx]} after a finished {len(hist)}-call auction: {fmt(r)}',
                      {'kind': 'auction', 'dealer': dealer, 'vul': vul, 'history': list(hist), 'call': CALLS[idx]})


REDUCED = ['Pass', 'X', 'XX', '1C', '1D', '1NT', '7NT']


def unit(args):
    """Worker: one (dealer, vul, cell, mode) exploration."""
    mode, dealer, vul, cell, depth = args
    c = Counter()
    if mode == 'graph':
        explore(dealer, vul, cell, c)
    elif mode == 'unmerged':
        explore(dealer, vul, None, c, alphabet=[CALLS.index(n) for n in REDUCED], merge=False, max_depth=depth)
        c.n['unmerged_states'] = c.n.pop('states', 0)
        c.n['unmerged_transitions'] = c.n.pop('transitions', 0)
    elif mode == 'walks':
        for w in long_walks():
            run_walk(dealer, vul, w, c)
        c.n['walk_transitions'] = c.n.pop('transitions', 0)
    return c


def replay(d):
    """Re-execute a recorded history + call on a fresh real object and re-evaluate the oracles."""
    c = Counter()
    dealer, vul, hist = d['dealer'], d['vul'], d['history']
    try:
        o = rebuild(dealer, vul, hist)
    except Exception as e:  # noqa
        return True, f'history {hist} cannot be replayed: {e!r}'
    check_state(o, hist, dealer, vul, c, 'replay')
    if 'call' in d:
        legal = R.legal(hist, dealer)
        before = clone(o)
        r = apply_call(o, CALLS.index(d['call']))
        if R.finished(hist):
            if not isinstance(r, Exception) or changed(o, before, c):
                c.violate('after_end', f'call {d["call"]} after finished auction: {fmt(r)}')
        elif d['call'] not in legal:
            ch = changed(o, before, c)
            if r is not BiddingPhaseState.ILLEGAL or ch:
                c.violate('illegal', f'illegal call {d["call"]} answered {fmt(r)}, state changed: {ch}')
        else:
            if r is BiddingPhaseState.ILLEGAL or isinstance(r, Exception):
                c.violate('legal', f'legal call {d["call"]} answered {fmt(r)}')
            else:
                h2 = hist + [d['call']]
                want = BiddingPhaseState.FINISHED if R.finished(h2) else BiddingPhaseState.ONGOING
                if r is not want:
                    c.violate('verdict', f'returned {fmt(r)}, expected {want.name}')
                check_state(o, h2, dealer, vul, c, 'replay2')
    return bool(c.violations), '\n'.join(v.message for v in c.violations) or 'oracle satisfied'
