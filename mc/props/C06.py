"""C06 - the playable-card set is exactly the follow-suit rule.

(1) the static helper PlayingPhase.available_cards on complete structured covers of (hand, card led);
(2) the state-dependent variants (all-hands engine for every seat, observer's own hand, observer's view of dummy) in every
    state of the L3 play-outs of C04;
(3) the bundled RandomPlay with random.choice replaced by an enumerating chooser: every index of every choice, at every state
    of the default-line play-outs, for own hand and for dummy's hand."""
import itertools

import bridge_env.network_bridge.playing_system as PS
from bridge_env.playing_phase import PlayingPhase

from .. import adapt
from ..core import Counter, Result, merge_all, pmap
from ..ref import play as RP
from . import C04
from . import play as PX
from . import scen

TAG = 'C06'
CARDS = adapt.CARDS
CI = PX.CI


def _avail(hand, led, c: Counter, tag: str):
    hs = {CARDS[x] for x in hand}
    before = set(hs)
    try:
        got = PlayingPhase.available_cards(hs, None if led is None else CARDS[led])
        got = {CI[x] for x in got}
    except Exception as e:  # noqa
        got = repr(e)
    exp = RP.playable(set(hand), led)
    c.inc('static')
    if got != exp or hs != before:
        kind = 'raise' if isinstance(got, str) else ('empty' if not got else ('outside-hand' if got - set(hand) else 'wrong'))
        c.violate(f'C06:static:{tag}:{kind}', f'available_cards(hand {sorted(hand)}, led {led}) = {sorted(got) if isinstance(got, set) else got}, the follow-suit rule gives {sorted(exp)}'
                                            f'{"; the hand was modified" if hs != before else ""}', {'kind': 'static', 'hand': sorted(hand), 'led': led})


def static_unit(args):
    kind = args[0]
    c = Counter()
    if kind == 'reduced':
        # 4 suits x 3 ranks: all 4095 non-empty hands x (12 leads + leading)
        deck = [s * 13 + r for s in range(4) for r in (0, 6, 12)]
        for m in range(1, 1 << 12):
            hand = [deck[i] for i in range(12) if m >> i & 1]
            for led in [None] + deck:
                _avail(hand, led, c, 'reduced')
            c.see('cls', ('reduced', m))
    else:
        # full deck: every holding (<= 13 cards) in the suit led x a pool of rests x every rank led
        _, suit = args
        others = [x for x in range(52) if x // 13 != suit]
        for m in range(1 << 13):
            hold = [suit * 13 + r for r in range(13) if m >> r & 1]
            room = 13 - len(hold)
            rests = [[], others[:1], others[13:14], others[:room]] if room else [[]]
            for rest in rests:
                if len(rest) > room or not (hold or rest):
                    continue
                for r in range(13):
                    _avail(hold + rest, suit * 13 + r, c, 'void' if not hold else 'holding')
                _avail(hold + rest, None, c, 'lead')
            c.see('cls', ('full', suit, m))
    return c


class EnumChooser:
    """Stands in for the `random` module inside playing_system: choice(seq) returns seq[self.i] of the sorted candidates and
    records how many there were."""

    def __init__(self):
        self.i = 0
        self.n = None

    def choice(self, seq):
        seq = sorted(seq)
        self.n = len(seq)
        return seq[self.i % len(seq)]

    def __getattr__(self, name):
        raise AttributeError(f'random.{name} used by the example player')


def random_play_unit(args):
    bid, decl, deal_seed = args
    c = Counter()
    deal = scen.deal_from_seed(deal_seed)
    ch = EnumChooser()
    saved = PS.random
    PS.random = ch
    player = PS.RandomPlay()

    def probe(rig, seat):
        led = rig.ref.led()
        exp = RP.playable(rig.hands[seat], led)
        views = [('table', rig.full, {CARDS[x] for x in rig.hands[seat]})]
        dm = rig.ref.dummy
        ctrl = rig.declarer_s if seat == dm else seat
        o = rig.obs.get(ctrl)
        if o is not None and ctrl not in rig.dead_obs:
            if seat == dm:
                if o.dummy_hand is not None:
                    views.append(('client-dummy', o, o.dummy_hand))
            else:
                views.append(('client-own', o, o.hand))
        for name, env, hand in views:
            ch.i, ch.n = 0, None
            while ch.n is None or ch.i < ch.n:
                before = {CI[x] for x in hand}
                try:
                    card = player.play(hand, env)
                    got = CI[card]
                except Exception as e:  # noqa
                    c.violate(f'C06:randomplay:raise:{name}', f'{rig.where()}: RandomPlay.play raised {e!r}', rig.rp())
                    break
                c.inc('random_choices')
                if got not in exp or {CI[x] for x in hand} != before:
                    c.violate(f'C06:randomplay:{name}:{"lead" if led is None else "follow"}', f'{rig.where()}: RandomPlay (choice index {ch.i} of {ch.n}) picked card {got} for {seat}; '
                                                                                              f'the playable set is {sorted(exp)}', rig.rp({'choice': ch.i}))
                    break
                ch.i += 1
    try:
        PX.set_opts(observers=True, playable=False, do_faults=False)
        PX.run_playout(bid, decl, deal, {}, c, fault_from=None, chooser=probe)
        alts = PX.n_alternatives(bid, decl, deal, {})
        for k in range(0, len(alts), 5):
            if alts[k]:
                PX.run_playout(bid, decl, deal, {k: alts[k] - 1}, c, fault_from=None, chooser=probe)
    finally:
        PS.random = saved
    return c


def run(tier, seed, workers):
    su = [('reduced',)] + [('full', s) for s in range(4)]
    t1 = merge_all(pmap(static_unit, su, workers))
    t2 = C04.run_play(TAG, tier, seed, workers)
    pairs = [(f'{1 + i}{dn}', 'NESW'[(i + j + seed) % 4], seed * 17 + j) for i, dn in enumerate(PX.DENOMS) for j in range(2 if tier == 'quick' else 4)]
    t3 = merge_all(pmap(random_play_unit, pairs, workers))
    tot = merge_all([t1, t2, t3])
    viol = [v for v in tot.violations if v.key.startswith(TAG + ':')]
    cov = C04.coverage(tot, tier, TAG)
    cov['static_helper_evaluations'] = tot.get('static')
    cov['random_play_choices_enumerated'] = tot.get('random_choices')
    cov['evaluations'] += tot.get('static') + tot.get('random_choices')
    cov['states'] += tot.get('static')
    cov['distinct_nontrivial'] += tot.distinct('cls')
    cov['rule'] = ('(1) PlayingPhase.available_cards: reduced deck (4 suits x ranks 2,8,A) all 4095 non-empty hands x (12 cards led + leading); full deck: per suit all 8192 holdings in the suit led '
                   'x rests {none, one off-suit card, another off-suit card, filled to 13} x all 13 ranks led + leading; the hand argument must not be modified.  (2) in every state of the L3 play-outs: '
                   'current_available_cards_in_hand of every seat (not only the one on turn) on the all-hands engine, own-hand and dummy-hand variants of every observer == reference set.  '
                   '(3) RandomPlay.play with random.choice enumerated: every index at every state of default-line and sampled-departure play-outs, for the table view, the client\'s own hand '
                   'and declarer\'s view of dummy. ' + cov['rule'].split('L3:')[-1])
    cov['samples'] = [{'static': {'hand': [0, 6, 13], 'led': 12, 'expected': [0, 6]}}, {'state': '2D by E after 9 plays', 'seat': 'every seat', 'set': 'cards of the suit led, else the hand'},
                      {'randomplay': 'choice index 3 of 5 at trick 4 from dummy'}]
    return Result(cov, viol, C04.ASSUME[:1])


def replay(d):
    if d.get('kind') == 'static':
        c = Counter()
        _avail(d['hand'], d['led'], c, 'replay')
        return bool(c.violations), '\n'.join(v.message for v in c.violations) or 'ok'
    return C04.replay(d)


from ..conc import driver as _conc  # noqa: E402
_conc.wrap(globals(), 'C06')
