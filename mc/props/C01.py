"""C01 - the auction accepts exactly the legal calls; mask = legal set; rejected call changes nothing."""
from ..core import Counter, Result, merge_all, pmap
from . import auction as A

TAG = 'C01'
CELLS_ALL = [(s, d) for s in ('NS', 'EW') for d in A.R.DENOMS]


def units(tier, seed):
    us = []
    for dealer in 'NESW':
        us.append(('graph', dealer, A.adapt.VULS[(seed + 'NESW'.index(dealer)) % 4], None, 0))
    # vulnerability does not enter take_bid: all four on one dealer (graphs must have the same size)
    d0 = 'NESW'[seed % 4]
    for vul in A.adapt.VULS:
        if ('graph', d0, vul, None, 0) not in us:
            us.append(('graph', d0, vul, None, 0))
    if tier == 'thorough':
        # every dealer x vulnerability combination
        for dealer in 'NESW':
            for vul in A.adapt.VULS:
                if ('graph', dealer, vul, None, 0) not in us:
                    us.append(('graph', dealer, vul, None, 0))
    for dealer in 'NESW':
        us.append(('unmerged', dealer, 'None', None, 6 if tier == 'quick' else 7))
        us.append(('walks', dealer, A.adapt.VULS[(seed + 1) % 4], None, 0))
    return us


def run_tagged(tag, tier, seed, workers, us, extra_rule=''):
    cs = pmap(A.unit, us, workers)
    sizes = {}
    for u, c in zip(us, cs):
        if u[0] == 'graph':
            sizes.setdefault(u[3], set()).add(c.get('states'))
    tot = merge_all(cs)
    viol = [v for v in tot.violations if v.key.startswith(tag + ':') or v.key.startswith('INTERNAL')]
    for cell, s in sizes.items():
        if len(s) != 1 and tot.get('cap_hit') == 0 and tot.get('stopped_early_after_violations') == 0:
            from ..core import Violation
            viol.append(Violation(f'{tag}:graph_size', f'state graphs differ in size across dealers/vulnerabilities: {sorted(s)} '
                                                        f'(projection {cell})', {}))
    n_tr = tot.get('transitions') + tot.get('unmerged_transitions') + tot.get('walk_transitions')
    cov = {
        'states': tot.get('states'), 'transitions': n_tr, 'traces_validated_against_impl': n_tr,
        'evaluations': n_tr, 'distinct_nontrivial': tot.get('states'),
        'graph_units': sum(1 for u in us if u[0] == 'graph'),
        'states_per_graph': sorted({c.get('states') for u, c in zip(us, cs) if u[0] == 'graph'}),
        'finished_states': tot.get('finished_states'), 'calls_refused_after_end': tot.get('refused_after_end'),
        'illegal_calls_offered': tot.get('illegal_offered'), 'merges': tot.get('merges'),
        'bfs_depth': tot.maxes.get('max_depth'), 'longest_history_executed': tot.maxes.get('longest_history'),
        'long_walks': tot.get('long_walks'), 'unmerged_states': tot.get('unmerged_states'),
        'unmerged_transitions': tot.get('unmerged_transitions'), 'distinct_verdicts': sorted(map(str, tot.sets.get('verdicts', []))),
        'rule': 'BFS over canonical states of the real BiddingPhase (key = full attribute dump minus history-only fields + '
                'min(len,3) + last two calls [+ one first-to-name cell]); all 38 calls offered in every state incl. finished ones; '
                'every transition compared with the history-based reference; + unmerged enumeration of all histories over '
                f'{A.REDUCED} to a depth bound; + long walks incl. the 319-call maximal auction.' + extra_rule,
        'samples': [{'dealer': 'N', 'history': ['Pass', 'Pass', 'Pass', '1C', 'X', 'XX'], 'offered': 'all 38 calls'},
                    {'walk': 'PPP (bid PP X PP XX PP)x35 P', 'length': 319}],
        'exhaustive': tot.get('cap_hit') == 0, 'caps_hit': tot.get('cap_hit'),
    }
    return Result(cov, viol, ['two states with equal keys have equal futures: take_bid/contract read only what the key retains '
                              '(checked by the differential merge test and the unmerged cross-check)'])


def run(tier, seed, workers):
    return run_tagged(TAG, tier, seed, workers, units(tier, seed))


replay = A.replay
