"""Exploration of the real play engines (shared by C04, C05, C06, C11 in process).

A Rig holds, for one board: the full-information engine PlayingPhaseWithHands, four ObservedPlayingPhase replicas (one
per seat, dummy exposed after the opening lead) and the reference model mc/ref/play.py.  Every play is applied to all of
them; after every play the oracles of the four properties are evaluated (violations are tagged with the property)."""
from __future__ import annotations

import enum
import itertools
from typing import Dict, List, Optional, Sequence, Tuple

from bridge_env import Card, Contract, Hands, Pair, Player, Suit
from bridge_env.playing_phase import ObservedPlayingPhase, PlayingHistory, PlayingPhase, PlayingPhaseWithHands, TrickHistory

from .. import adapt
from ..core import Counter
from ..ref import play as RP
from ..ref.auction import BIDS

SEATS = 'NESW'
PL = adapt.PL
CARDS = adapt.CARDS
CI = {c: i for i, c in enumerate(CARDS)}
DENOMS = ['C', 'D', 'H', 'S', 'NT']


def trump_of(bid: str) -> Optional[int]:
    d = bid[1:]
    return None if d == 'NT' else 'CDHS'.index(d)


def pfreeze(v):
    """Hashable, comparable image of any value found inside the play engines."""
    t = type(v)
    if t in (int, str, bool, float, type(None)):
        return v
    if t is Card:
        return CI[v]
    if isinstance(v, enum.Enum):
        return v._name_
    if t in (list, tuple):
        return tuple(pfreeze(x) for x in v)
    if t in (set, frozenset):
        return ('set',) + tuple(sorted(pfreeze(x) for x in v))
    if t is dict:
        return tuple(sorted((pfreeze(k), pfreeze(x)) for k, x in v.items()))
    if t is Hands:
        return ('hands',) + tuple(pfreeze(v[p]) for p in Player)
    if t is PlayingHistory:
        return ('history', pfreeze(v.contract), tuple(pfreeze(x) for x in v.history), tuple(pfreeze(x) for x in v._history))
    if t is TrickHistory:
        return (v.leader._name_, tuple(CI[c] for c in v.cards))
    if t is Contract:
        return ('contract', pfreeze(v.final_bid), v.x, v.xx, pfreeze(v.vul), pfreeze(v.declarer))
    if hasattr(v, '__dict__'):
        return (t.__name__,) + tuple((k, pfreeze(x)) for k, x in sorted(vars(v).items()))
    return repr(v)


def snap(o) -> tuple:
    return tuple((k, pfreeze(v)) for k, v in sorted(vars(o).items()))


OBSERVABLE_ATTRS = {'contract', 'trump', 'declarer', 'dummy', 'leader', 'active_player', 'trick_num', 'playing_history', 'used_cards', 'taken_tricks',
                    'hands', '_trick_cards', '_player', '_hand', '_dummy_hand'}


def _observable_diff(before: tuple, after: tuple) -> bool:
    """Do two attribute snapshots differ in an attribute a caller can observe (through the public attributes, properties and the
    playable-set methods)?  Attributes outside this list are private bookkeeping."""
    b, a = dict(before), dict(after)
    return any(b.get(k) != a.get(k) for k in OBSERVABLE_ATTRS if k in b or k in a)


def pub_snap(o) -> tuple:
    """Everything a caller can observe of a play engine: the public view, the hands it knows, the played cards, and the playable set
    of a probe hand (which reveals the cards of the current trick)."""
    hands = None
    if isinstance(o, PlayingPhaseWithHands):
        hands = tuple(pfreeze(o.hands[p]) for p in Player)
    elif isinstance(o, ObservedPlayingPhase):
        hands = (pfreeze(o.hand), pfreeze(o.dummy_hand))
    probe = {CARDS[i] for i in range(0, 52, 3)}
    try:
        av = pfreeze(o.current_available_cards(probe))
    except Exception as e:  # noqa
        av = type(e).__name__
    return (public_view(o), hands, pfreeze(o.used_cards), av)


def public_view(o: PlayingPhase) -> tuple:
    """What every replica must agree on."""
    return (pfreeze(o.contract), o.declarer._name_, o.dummy._name_, o.leader._name_,
            o.active_player._name_ if o.active_player is not None else None, o.trick_num,
            tuple(pfreeze(x) for x in o.playing_history.history), o.taken_tricks[Pair.NS], o.taken_tricks[Pair.EW], o.has_done(),
            o.trump._name_)


def _try(f, *a):
    try:
        return ('ok', f(*a))
    except Exception as e:  # noqa
        return ('exc', e)


class Rig:
    def __init__(self, bid: str, declarer: str, deal: Dict[str, frozenset], c: Counter, vul: str = 'None', dbl: int = 0, observers: bool = True,
                 playable: bool = True, do_faults: bool = True):
        self.bid, self.declarer_s, self.deal, self.c = bid, declarer, {s: frozenset(deal[s]) for s in SEATS}, c
        self.playable, self.do_faults = playable, do_faults
        self.contract = adapt.mk_contract(bid, dbl, vul, declarer)
        self.full = PlayingPhaseWithHands(self.contract, adapt.hands_obj(deal))
        self.obs: Dict[str, ObservedPlayingPhase] = {}
        if observers:
            self.own_sets = {s: {CARDS[x] for x in deal[s]} for s in SEATS}       # the very objects the observers were constructed with
            self.obs = {s: ObservedPlayingPhase(self.contract, PL[s], self.own_sets[s]) for s in SEATS}
        self.trump = trump_of(bid)
        self.ref = RP.Board(declarer, self.trump)
        self.hands = {s: set(deal[s]) for s in SEATS}
        self.plays: List[int] = []
        # what the observer in the dummy seat is handed when dummy is exposed: nothing, a copy of the exposed cards (as every other
        # observer), or the very set object it was constructed with (a caller that keeps one set per hand and passes it wherever asked)
        self.dummy_mode = ('none', 'copy', 'alias')[(sum(min(v) for v in deal.values() if v) + SEATS.index(declarer)) % 3]
        self.dummy_gets_copy = self.dummy_mode == 'copy'
        self.dummy_open = False
        self.dead_obs: set = set()

    # ---- identification for violation records
    def rp(self, extra=None) -> dict:
        d = {'kind': 'playout', 'bid': self.bid, 'declarer': self.declarer_s, 'deal': {s: sorted(self.deal[s]) for s in SEATS}, 'plays': list(self.plays)}
        if extra:
            d.update(extra)
        return d

    def where(self) -> str:
        return f'{self.bid} by {self.declarer_s}, after {len(self.plays)} plays {self.plays[-6:]}'

    # ---- one accepted play on every engine
    def play(self, card: int):
        c = self.c
        seat = self.ref.active
        co = CARDS[card]
        r = _try(self.full.play_card_by_player, co, PL[seat])
        if r[0] == 'exc':
            c.violate(f'C05:refused-held-card:{type(r[1]).__name__}', f'{self.where()}: {seat} on turn plays the held card {card}: refused with {r[1]!r}', self.rp({'next': card}))
            raise Broken()
        for s, o in self.obs.items():
            if s in self.dead_obs:
                continue
            r = _try(o.play_card_by_player, co, PL[seat])
            if r[0] == 'exc':
                kindp = "revoke" if self._is_revoke(seat, card) else "follow"
                c.violate(f'C11:observer-rejects:{type(r[1]).__name__}:{kindp}',
                          f'{self.where()}: the observer in seat {s} rejected {seat} playing card {card}, which the table accepted: {r[1]!r}', self.rp({'next': card}))
                # the single-seat engine is a trick engine as well: a sequence of plays the full-information engine plays out must be played out by it too (C04)
                c.violate(f'C04:observed-engine-refuses:{type(r[1]).__name__}:{kindp}',
                          f'{self.where()}: ObservedPlayingPhase (seat {s}) refuses {seat} playing card {card} ({"a revoke" if kindp == "revoke" else "following suit"}); the trick cannot be completed there: {r[1]!r}', self.rp({'next': card}))
                self.dead_obs.add(s)
        self.hands[seat].discard(card)
        self.ref.play(card)
        self.plays.append(card)
        if len(self.plays) == 1 and self.obs:
            # the opening lead has been made: dummy is exposed to the three other seats; in every other board the caller hands the
            # exposed cards to ALL four observers alike (the dummy-seat observer then holds them twice: as its own hand and as a copy)
            dm = self.ref.dummy
            for s, o in self.obs.items():
                if s == dm and self.dummy_mode == 'alias':
                    o.set_dummy_hand(self.own_sets[dm])
                elif s != dm or self.dummy_gets_copy:
                    o.set_dummy_hand({CARDS[x] for x in self.hands[dm]})
            self.dummy_open = True

    def deepcopy_probe(self):
        """copy.deepcopy of a board in progress (what search / roll-out code does): a card played on the copy must not be felt by the
        original.  The original is then re-checked by every oracle."""
        import copy as _copy
        if self.ref.done():
            return
        seat = self.ref.active
        card = default_card(self.hands, seat, self.ref.led())
        for name, o in [('table', self.full)] + [(f'observer-{s}', o) for s, o in self.obs.items() if s not in self.dead_obs]:
            try:
                d = _copy.deepcopy(o)
                d.play_card_by_player(CARDS[card], PL[seat])
            except Exception as e:  # noqa
                self.c.violate(f'C05:deepcopy:{type(e).__name__}', f'{self.where()}: a deep copy of {name} cannot play the card the original could: {e!r}', self.rp())
        self.c.inc('deepcopy_probes')
        self.check()

    def _is_revoke(self, seat, card) -> bool:
        led = self.ref.led()
        return led is not None and RP.suit(card) != RP.suit(led) and any(RP.suit(x) == RP.suit(led) for x in self.hands[seat])

    # ---- oracles on the current state
    def check(self, deep: bool = True):
        c, f, ref = self.c, self.full, self.ref
        n = len(self.plays)
        c.inc('states_checked')
        done = ref.done()
        # C04: turn, leader, trick number, counts, history, end
        exp_active = ref.active
        view = public_view(f)
        got = (view[3], view[4], view[5], view[7], view[8], view[9])
        want = (ref.leader, exp_active, ref.trick_num, ref.taken['NS'], ref.taken['EW'], done)
        if got != want:
            c.violate(f'C04:bookkeeping:{_diff(got, want)}', f'{self.where()}: (leader, on turn, trick number, NS tricks, EW tricks, over) = {got}, the laws of play give {want}', self.rp())
        hist = view[6]
        exp_hist = tuple((ld, tuple(cs)) for ld, cs in ref.tricks)
        if hist != exp_hist:
            c.violate(f'C04:history:{"length" if len(hist) != len(exp_hist) else "content"}', f'{self.where()}: recorded history has {len(hist)} tricks {hist[-2:]}, played were {len(exp_hist)} tricks {exp_hist[-2:]}', self.rp())
        else:
            for i in (0, len(exp_hist) - 1):
                if exp_hist and pfreeze(f.playing_history[i]) != exp_hist[i]:
                    c.violate('C04:history:index', f'{self.where()}: playing_history[{i}] differs from the history tuple', self.rp())
        if view[1] != self.declarer_s or view[2] != RP.partner(self.declarer_s) or view[10] != ('NT' if self.trump is None else 'CDHS'[self.trump]):
            c.violate('C04:roles', f'{self.where()}: declarer/dummy/trump = {view[1]}/{view[2]}/{view[10]}', self.rp())
        # C05: conservation
        got_h = {s: frozenset(CI[x] for x in f.hands[PL[s]]) for s in SEATS}
        if got_h != {s: frozenset(self.hands[s]) for s in SEATS}:
            c.violate('C05:hands', f'{self.where()}: the remaining hands differ from the deal minus the cards played', self.rp())
        used = frozenset(CI[x] for x in f.used_cards)
        if used != frozenset(self.plays) or len(self.plays) != len(set(self.plays)):
            c.violate('C05:played-cards', f'{self.where()}: the played-card set has {len(used)} cards, {len(self.plays)} were played', self.rp())
        allc = sorted(list(used) + [x for s in SEATS for x in got_h[s]])
        if allc != sorted(x for s in SEATS for x in self.deal[s]):
            c.violate('C05:partition', f'{self.where()}: remaining hands and played cards do not partition the original deal', self.rp())
        if n == sum(len(v) for v in self.deal.values()) and any(got_h[s] for s in SEATS):
            c.violate('C05:not-empty', f'{self.where()}: hands are not empty after every card was played', self.rp())
        # C06: the playable set of every seat (not only the one on turn)
        led = ref.led()
        for s in (SEATS if self.playable else ()):
            exp = RP.playable(self.hands[s], led)
            r = _try(f.current_available_cards_in_hand, PL[s])
            self._cmp_avail(r, exp, self.hands[s], f'all-hands:{"lead" if led is None else "follow"}', f'seat {s}')
        if deep and not done and self.playable:
            s = ref.active
            r = _try(f.current_available_cards, {CARDS[x] for x in self.hands[s]})
            self._cmp_avail(r, RP.playable(self.hands[s], led), self.hands[s], f'current:{"lead" if led is None else "follow"}', f'hand of {s}')
        # observers: C11 agreement + C05 (own / dummy hand) + C06 (own / dummy playable sets)
        dm = ref.dummy
        for s, o in self.obs.items():
            if s in self.dead_obs:
                continue
            ov = public_view(o)
            if ov != view:
                c.violate(f'C11:disagree:{_diff(ov, view)}', f'{self.where()}: the observer in seat {s} holds (contract, declarer, dummy, leader, on turn, trick, history, NS, EW, over, trump) '
                                                              f'= {_short(ov)}, the table holds {_short(view)}', self.rp())
            own = frozenset(CI[x] for x in o.hand)
            if own != frozenset(self.hands[s]):
                c.violate('C05:observer-own-hand', f'{self.where()}: observer {s}: own hand {sorted(own)} != {sorted(self.hands[s])}', self.rp())
            if self.playable:
                r = _try(o.current_available_cards_in_hand)
                self._cmp_avail(r, RP.playable(self.hands[s], led), self.hands[s], f'observer-own:{"lead" if led is None else "follow"}', f'observer {s} own hand')
            if s != dm:
                if self.dummy_open:
                    dh = o.dummy_hand
                    if dh is None or frozenset(CI[x] for x in dh) != frozenset(self.hands[dm]):
                        c.violate('C05:observer-dummy-hand', f'{self.where()}: observer {s}: dummy\'s hand differs from dummy\'s remaining cards', self.rp())
                    if self.playable:
                        r = _try(o.current_available_cards_in_dummy_hand)
                        self._cmp_avail(r, RP.playable(self.hands[dm], led), self.hands[dm], f'observer-dummy:{"lead" if led is None else "follow"}', f'observer {s} dummy hand')
                elif o.dummy_hand is not None:
                    c.violate('C11:dummy-early', f'{self.where()}: observer {s} knows dummy before the opening lead', self.rp())

    def _after_damage(self):
        """The table engine itself was changed by a refused / wrongly accepted play: let the other oracles (trick bookkeeping,
        playable sets, replicas) describe the damage in their own terms, then abandon the play-out (the reference has not moved)."""
        saved = self.playable
        self.playable = True
        try:
            self.check()
        finally:
            self.playable = saved
        raise Broken()

    def _cmp_avail(self, r, exp: set, hand: set, tag: str, who: str):
        c = self.c
        c.inc('playable_sets')
        if r[0] == 'exc':
            c.violate(f'C06:raise:{tag}', f'{self.where()}: playable set of {who} raised {r[1]!r}', self.rp())
            return
        try:
            got = {CI[x] for x in r[1]}
        except Exception:  # noqa
            c.violate(f'C06:type:{tag}', f'{self.where()}: playable set of {who} is {r[1]!r}', self.rp())
            return
        if got != set(exp):
            kind = 'outside-hand' if got - set(hand) else ('empty' if not got and hand else ('too-many' if got > set(exp) else 'wrong'))
            c.violate(f'C06:set:{tag}:{kind}', f'{self.where()}: playable set of {who} is {sorted(got)}, the follow-suit rule gives {sorted(exp)} (hand {sorted(hand)}, led {self.ref.led()})', self.rp())

    # ---- faults: every refused play must raise and change nothing (C05)
    def faults(self):
        if not self.do_faults:
            return
        c, f, ref = self.c, self.full, self.ref
        active = ref.active if not ref.done() else None
        engines = [('table', f)] + [(f'observer-{s}', o) for s, o in self.obs.items() if s not in self.dead_obs]
        menu: List[Tuple[str, str, int]] = []            # (kind, seat that plays, card)
        for s in SEATS:
            if s != active and self.hands[s]:
                menu.append(('out-of-turn', s, min(self.hands[s])))
                if len(self.hands[s]) > 1:
                    menu.append(('out-of-turn', s, max(self.hands[s])))
        if active is not None:
            for s in SEATS:
                if s != active and self.hands[s]:
                    menu.append(('not-held', active, min(self.hands[s])))
            # a card of the seat on turn, but played in the name of another seat (e.g. declarer named for a card from dummy)
            if self.hands[active]:
                for s in SEATS:
                    if s != active:
                        menu.append(('wrong-seat-named', s, min(self.hands[active])))
            if self.plays:
                menu.append(('already-played', active, self.plays[-1]))
                menu.append(('already-played', active, self.plays[0]))
        else:
            # after the last card: nobody may play anything any more
            for s in SEATS:
                menu.append(('after-the-end', s, self.plays[-1 - SEATS.index(s)]))
                menu.append(('after-the-end', s, self.plays[SEATS.index(s)]))
        dm = ref.dummy
        for name, o in engines:
            seat_o = name[-1] if name != 'table' else None
            if seat_o is not None and THIN_OBSERVER_FAULTS and (len(self.plays) + SEATS.index(seat_o)) % 2:
                continue           # quick tier: each observer is offered the faults at every other position (the table engine at every one)
            before = snap(o)
            for kind, s, card in menu:
                if seat_o is not None:
                    # an observer can only judge what it can see: the turn always; possession for its own seat and for an exposed dummy
                    visible = (s == seat_o) or (s == dm and self.dummy_open and seat_o != dm)
                    if kind in ('not-held', 'already-played', 'after-the-end') and not visible:
                        continue
                    # 'wrong-seat-named' is an out-of-turn play: the turn is public, every observer must refuse it
                    if kind == 'after-the-end' and s != (self.ref.leader):
                        pass
                c.inc('faults')
                r = _try(o.play_card_by_player, CARDS[card], PL[s])
                if r[0] != 'exc':
                    c.violate(f'C05:accepted:{kind}:{"table" if seat_o is None else "observer"}',
                              f'{self.where()}: {name} accepted the {kind} play of card {card} by {s} (on turn: {active})', self.rp({'fault': [kind, s, card, name]}))
                    if seat_o is None:
                        # the table accepted it: every replica fed the same public play must accept it as well (C11)
                        for s2, o2 in self.obs.items():
                            if s2 in self.dead_obs:
                                continue
                            r2 = _try(o2.play_card_by_player, CARDS[card], PL[s])
                            if r2[0] == 'exc':
                                c.violate(f'C11:observer-rejects:{type(r2[1]).__name__}:accepted-{kind}',
                                          f'{self.where()}: the table accepted the {kind} play of card {card} named for {s} (on turn: {active}) but the observer in seat {s2} refused it: {r2[1]!r}',
                                          self.rp({'fault': [kind, s, card, name]}))
                                break
                        self._after_damage()
                    self.dead_obs.add(seat_o)          # this replica has left the common history; the others go on
                    break
                after = snap(o)
                if after != before and not _observable_diff(before, after):
                    # only private attributes changed (a cache, a counter): nothing a caller can observe - recorded, not judged; the
                    # object stays in the play-out, so a later effect of the change would still meet the oracles
                    c.inc('private_state_changed_without_observable_effect')
                    before = after
                elif after != before:
                    c.violate(f'C05:refused-but-changed:{kind}:{"table" if seat_o is None else "observer"}',
                              f'{self.where()}: {name} refused the {kind} play of card {card} by {s} but its state changed', self.rp({'fault': [kind, s, card, name]}))
                    if seat_o is None:
                        self._after_damage()
                    # a damaged observer stays in the play-out: what the damage does to the rest of the board is for C11 / C06 to say
                    before = snap(o)
        # dummy's card before dummy is exposed (observers other than dummy)
        if not self.dummy_open and self.obs and active == dm:
            pass      # cannot happen: the opening leader is never dummy


class Broken(Exception):
    """The engines are no longer in step with the reference (a violation was recorded); abandon this play-out."""


def _diff(a: tuple, b: tuple) -> str:
    return ','.join(str(i) for i, (x, y) in enumerate(zip(a, b)) if x != y)


def _short(v: tuple):
    return tuple(x if not (isinstance(x, tuple) and len(x) > 4) else f'<{len(x)} items>' for x in v)


# ---------------------------------------------------------------------------------------------------------------
# play-outs

def default_card(hands, seat, led) -> int:
    return min(RP.playable(hands[seat], led))


THIN_OBSERVER_FAULTS = False
OPTS = {'observers': True, 'playable': True, 'do_faults': True}        # set per property by the caller (module-level: work units run in forked workers)


def set_opts(**kw):
    global THIN_OBSERVER_FAULTS
    THIN_OBSERVER_FAULTS = bool(kw.pop('thin', False))
    OPTS.update(kw)


def run_playout(bid, declarer, deal, departures: Dict[int, int], c: Counter, fault_from: Optional[int] = 0, observers=True,
                fault_span: int = 99, chooser=None) -> Optional[Rig]:
    """Default line = lowest legal card; departures[k] = index (into the sorted remaining hand, default card removed) of the card
    played instead at position k.  Oracles after every play; faults injected at positions fault_from..fault_from+fault_span."""
    df = OPTS['do_faults']
    if df == 'light':
        # faults only on the default line and on every 4th departure play-out
        df = (not departures) or (sum(departures) + sum(departures.values())) % 4 == 0
    if c.enough():
        return None
    rig = Rig(bid, declarer, deal, c, observers=observers and OPTS['observers'], playable=OPTS['playable'], do_faults=bool(df))
    total = sum(len(v) for v in deal.values())
    try:
        rig.check()
        if fault_from is not None and fault_from == 0:
            rig.faults()
        for k in range(total):
            seat = rig.ref.active
            led = rig.ref.led()
            card = default_card(rig.hands, seat, led)
            if k in departures:
                alts = [x for x in sorted(rig.hands[seat]) if x != card]
                if departures[k] >= len(alts):
                    return None
                card = alts[departures[k]]
            if chooser is not None:
                chooser(rig, seat)
            if not departures and total == 52 and k % 7 == 2:
                rig.deepcopy_probe()
            rig.play(card)
            rig.check(deep=(k % 4 == 3) or k in departures)
            if fault_from is not None and fault_from <= k + 1 <= fault_from + fault_span:
                rig.faults()
        c.inc('playouts')
        c.inc('plays', total)
        return rig
    except Broken:
        c.inc('playouts_abandoned')
        return None


def n_alternatives(bid, declarer, deal, prefix: Dict[int, int]) -> List[int]:
    """Number of alternative cards at each position of the play-out with the given departures (reference model only)."""
    b = RP.Board(declarer, trump_of(bid))
    hands = {s: set(deal[s]) for s in SEATS}
    out = []
    total = sum(len(v) for v in deal.values())
    for k in range(total):
        seat = b.active
        card = default_card(hands, seat, b.led())
        alts = [x for x in sorted(hands[seat]) if x != card]
        out.append(len(alts))
        if k in prefix:
            if prefix[k] >= len(alts):
                return out
            card = alts[prefix[k]]
        hands[seat].remove(card)
        b.play(card)
    return out


def explore_deviations(bid, declarer, deal, d: int, c: Counter, fault_span: int = 3, observers=True):
    """All play-outs with at most d departures from the default line (every other held card, revokes included)."""
    run_playout(bid, declarer, deal, {}, c, fault_from=0, observers=observers)
    if d <= 0:
        return
    alts0 = n_alternatives(bid, declarer, deal, {})
    for k, n in enumerate(alts0):
        for a in range(n):
            dep = {k: a}
            run_playout(bid, declarer, deal, dep, c, fault_from=k, fault_span=fault_span, observers=observers)
            if d >= 2:
                alts1 = n_alternatives(bid, declarer, deal, dep)
                for k2 in range(k + 1, len(alts1)):
                    for a2 in range(alts1[k2]):
                        run_playout(bid, declarer, deal, {k: a, k2: a2}, c, fault_from=None, observers=observers)


def replay(d: dict):
    c = Counter()
    deal = {s: frozenset(v) for s, v in d['deal'].items()}
    rig = Rig(d['bid'], d['declarer'], deal, c)
    try:
        rig.check()
        for card in d['plays']:
            rig.play(card)
            rig.check()
        if 'fault' in d or True:
            rig.faults()
        if 'next' in d:
            rig.play(d['next'])
            rig.check()
            rig.faults()
    except Broken:
        pass
    return bool(c.violations), '\n'.join(f'{v.key}: {v.message}' for v in c.violations) or 'all oracles satisfied on replay'
