"""C16 - IMP conversion is the official scale, odd, monotone, bounded; two-score form = scale of the sum."""
from bridge_env.score import calc_score
from bridge_env.score import point_difference_to_imps as _pdi, score_to_imp as _sti

from .. import adapt
from ..core import Counter, Result
from ..ref import score as R
from ..ref.auction import BIDS

point_difference_to_imps = adapt.shaped(_pdi)      # every question is also asked with the arguments passed by keyword
score_to_imp = adapt.shaped(_sti)


def _try(f, *a):
    try:
        return f(*a)
    except Exception as e:  # noqa
        return f'raised {type(e).__name__}: {e}'


def run(tier, seed, workers):
    c = Counter()
    W = 12000 if tier == 'quick' else 50000
    prev = None
    for d in range(-W, W + 1):
        got = _try(point_difference_to_imps, d)
        exp = R.imps(d)
        c.inc('evals')
        c.see('imps', got if isinstance(got, int) else None)
        if got != exp or type(got) is not int:
            c.violate(f'scale:{d}', f'point_difference_to_imps({d}) = {got!r}, official scale says {exp}', {'kind': 'scale', 'd': d})
        elif not -24 <= got <= 24:
            c.violate(f'range:{d}', f'imps {got} out of [-24,24] for {d}', {'kind': 'scale', 'd': d})
        if isinstance(prev, int) and isinstance(got, int) and got < prev:
            c.violate(f'monotone:{d}', f'imps decrease from {prev} to {got} between {d - 1} and {d}', {'kind': 'scale', 'd': d})
        prev = got
    for d in range(0, W + 1):
        a, b = _try(point_difference_to_imps, d), _try(point_difference_to_imps, -d)
        c.inc('evals')
        if not (isinstance(a, int) and isinstance(b, int) and a == -b):
            c.violate(f'odd:{d}', f'imps({d}) = {a!r} but imps({-d}) = {b!r}', {'kind': 'odd', 'd': d})
    # arbitrarily large magnitudes: finite list; beyond 4000 the scan is constant
    big = set()
    for k in range(1, 201):
        big.update({10 ** k, 10 ** k + 1, 10 ** k - 1, 2 ** k, 2 ** k + 1, 2 ** k - 1})
    # beyond every machine number type: past 2**63 (C long), 2**1024 (largest double), 10**400
    for k in (512, 1000, 1023, 1024, 1025, 1100, 2000, 5000):
        big.update({2 ** k, 2 ** k - 1, 2 ** k + 1})
    for k in (300, 308, 309, 310, 400, 1000):
        big.update({10 ** k, 10 ** k + 5})
    for d in sorted(big):
        for s in (d, -d):
            got = _try(point_difference_to_imps, s)
            c.inc('evals')
            c.inc('big')
            if got != R.imps(s):
                c.violate(f'scale:big:{s}', f'point_difference_to_imps({s}) = {got!r}, official scale says {R.imps(s)}',
                          {'kind': 'scale', 'd': s})
    # threshold neighbourhoods explicitly (also counted above)
    for lo, hi, k in R.IMP_ROWS + [(4000, 4000, 24)]:
        for d in (lo - 1, lo, lo + 1, hi - 1, hi, hi + 1, hi + 9):
            c.see('threshold_points', d)
    # two-score form: all pairs of achievable duplicate scores, and a dense square
    scores = {0}
    for bid in BIDS:
        for dbl in (0, 1, 2):
            for v in (False, True):
                for t in range(14):
                    scores.add(R.duplicate_score(int(bid[0]), bid[1:], dbl, v, t))
    scores = sorted(scores)
    pool = scores if tier == 'thorough' else scores[::3] + [s for s in scores if abs(s) <= 200]
    for a in pool:
        for b in pool:
            got = _try(score_to_imp, a, b)
            c.inc('evals')
            c.inc('pairs')
            if got != R.imps(a + b):
                c.violate(f'pair:{a}:{b}', f'score_to_imp({a},{b}) = {got!r}, scale of the sum {a + b} is {R.imps(a + b)}',
                          {'kind': 'pair', 'a': a, 'b': b})
    # correlated large scores whose sum is small: the two-score form must add exactly (no floating point)
    for base in (2 ** 53, 2 ** 53 + 1, 10 ** 20, 2 ** 64, 10 ** 300, 2 ** 1030):
        for d in (-4001, -4000, -3999, -21, -20, -19, 0, 15, 19, 20, 21, 40, 45, 50, 3990, 3999, 4000):
            for a, b in ((base + d, -base), (-base, base + d), (base, -base + d)):
                got = _try(score_to_imp, a, b)
                c.inc('evals')
                c.inc('pairs')
                if got != R.imps(a + b):
                    c.violate(f'pair:large-cancelling:{d}', f'score_to_imp({a if abs(a) < 10 ** 25 else "base%+d" % (a - base if a > 0 else a + base)}, ...) with a sum of {a + b} = {got!r}, '
                                                            f'the scale of the sum is {R.imps(a + b)}', {'kind': 'pair', 'a': a, 'b': b})
    sq = 300 if tier == 'thorough' else 120
    for a in range(-sq, sq + 1):
        for b in range(-sq, sq + 1):
            got = _try(score_to_imp, a, b)
            c.inc('evals')
            c.inc('pairs')
            if got != R.imps(a + b):
                c.violate(f'pair:{a}:{b}', f'score_to_imp({a},{b}) = {got!r}, scale of the sum {a + b} is {R.imps(a + b)}',
                          {'kind': 'pair', 'a': a, 'b': b})
    n = c.get('evals')
    cov = {'states': 2 * W + 1, 'transitions': n, 'traces_validated_against_impl': n, 'evaluations': n,
           'distinct_nontrivial': c.distinct('imps'), 'window': [-W, W], 'large_magnitudes': c.get('big'),
           'score_pairs': c.get('pairs'), 'achievable_scores': len(scores),
           'rule': f'every integer difference in [-{W},{W}] vs Law 78B table, bounded, monotone between consecutive integers, odd; '
                   '+-(10^k, 2^k, +-1) for k<=200; score_to_imp on all pairs of a pool of achievable duplicate scores and on a dense '
                   'square around 0; distinct = distinct IMP values observed (must be all 49 of -24..24)',
           'samples': [{'diff': 45, 'imps': point_difference_to_imps(45)}, {'diff': -430, 'imps': point_difference_to_imps(-430)},
                       {'pair': [620, -650], 'imps': score_to_imp(620, -650)}],
           'exhaustive': False,
           'exhaustive_note': 'the window is enumerated completely; integers beyond it are represented by the finite large-magnitude '
                              'list (the scan in point_difference_to_imps is constant above the last threshold, 4000)'}
    if c.distinct('imps') != 49:
        c.violate('vacuity', f'only {c.distinct("imps")} distinct IMP values observed, expected 49', {})
    return Result(cov, c.violations, ['Law 78B table typed independently in mc/ref/score.py'])


def replay(d):
    if d.get('kind') == 'pair':
        got = score_to_imp(d['a'], d['b'])
        return got != R.imps(d['a'] + d['b']), f'score_to_imp -> {got}, expected {R.imps(d["a"] + d["b"])}'
    if d.get('kind') == 'odd':
        a, b = point_difference_to_imps(d['d']), point_difference_to_imps(-d['d'])
        return a != -b, f'imps({d["d"]})={a}, imps({-d["d"]})={b}'
    if d.get('kind') == 'scale':
        x = d['d']
        got = [point_difference_to_imps(x - 1), point_difference_to_imps(x)]
        return got[1] != R.imps(x) or got[1] < got[0], f'imps({x - 1}), imps({x}) = {got}, scale says {R.imps(x)}'
    return False, 'no replay data'


from ..conc import driver as _conc  # noqa: E402
_conc.wrap(globals(), 'C16')
