"""C17 - board-settings files are read back as the boards that were written, in order.

JSON: operation sequences of the real JsonBoardSettingWriter (0..3 boards) -> JsonParser.parse_board_settings.
PBN: files rendered by the reference renderer mc/ref/pbn.py over the admissible layouts the property names (deal from any
first seat, the four required tags in every order, additional tags and table rows, header lines, LF/CRLF, runs of blank
lines before/between/after games, every accepted vulnerability spelling, ids over the stated alphabet)
-> PbnParser.parse_board_settings.  Full product over the small layout menus, one factor at a time over the large ones."""
from __future__ import annotations

import io
import itertools
from typing import List

from bridge_env import Player, Suit
from bridge_env.data_handler.json_handler.parser import JsonParser
from bridge_env.data_handler.json_handler.writer import JsonBoardSettingWriter
from bridge_env.data_handler.pbn_handler.parser import PbnParser

from .. import adapt
from ..core import Counter, Result, merge_all, pmap
from ..ref import pbn as RP
from . import scen

SEATS = 'NESW'
VULS = adapt.VULS
ALPHABET = "a1 .,-_/()'+#:"


def ids(tier: str) -> List[str]:
    out = [''] + list(ALPHABET) + [a + b for a in ALPHABET for b in ALPHABET]
    out += ['a  b', 'a   b', '1  ', '  1', "Board 12 (A/B) #3: x+y, z_w - 'q'.", '12', 'Z9', '0', '00', '07', '007', '0012', '10', '1.0', '1e3', '+7', '-1', '0x1', 'None', 'null', 'True']
    if tier == 'thorough':
        out += [a + b + c for a in "a .:" for b in ALPHABET for c in "1 -'"]
    return out


def mk_board(i: int, seed: int, bid=None, dealer=None, vul=None, dda=False) -> dict:
    return {'id': bid if bid is not None else f'{i + 1}', 'dealer': dealer or SEATS[(i + seed) % 4], 'vul': vul or VULS[(i * 3 + seed) % 4],
            'deal': scen.deal_from_seed(seed * 10 + i), 'dda': scen.dda_from_seed(seed * 10 + i) if dda else None}


def same_board(got, b: dict, with_dda: bool) -> List[str]:
    bad = []
    if got.board_id != b['id']:
        bad.append(f'id {got.board_id!r} != {b["id"]!r}')
    if not isinstance(got.dealer, Player) or got.dealer.name != b['dealer']:
        bad.append(f'dealer {got.dealer} != {b["dealer"]}')
    if adapt.VUL_NAME.get(got.vul) != b['vul']:
        bad.append(f'vulnerability {got.vul} != {b["vul"]}')
    try:
        hi = adapt.hands_ints(got.hands)
    except Exception as e:  # noqa
        hi = repr(e)
    if hi != {s: frozenset(b['deal'][s]) for s in SEATS}:
        bad.append('deal differs')
    exp_dda = b.get('dda') if with_dda else None
    if exp_dda is None:
        if got.dda is not None:
            bad.append(f'dda {got.dda!r} although none was written')
    else:
        d = got.dda
        if not isinstance(d, dict) or not all(isinstance(p, Player) and all(isinstance(s, Suit) for s in r) for p, r in d.items()) \
                or {p.name: {s.name: v for s, v in r.items()} for p, r in d.items()} != exp_dda:
            bad.append('double-dummy table differs')
    return bad


def id_class(x: str) -> str:
    if x == '':
        return 'empty'
    if '  ' in x:
        return 'double-blank'
    if x != x.strip():
        return 'edge-blank'
    return 'plain'


# ---- JSON ---------------------------------------------------------------------------------------------------------

def json_case(boards: List[dict], mode: str, c: Counter, tag: str):
    rp = {'kind': 'json', 'boards': _ser(boards), 'mode': mode}
    buf = io.StringIO()
    try:
        if mode == 'with':
            with JsonBoardSettingWriter(buf) as w:
                for b in boards:
                    _jwrite(w, b)
        else:
            w = JsonBoardSettingWriter(buf)
            w.open()
            for b in boards:
                _jwrite(w, b)
            w.close()
        got = JsonParser().parse_board_settings(io.StringIO(buf.getvalue()))
    except Exception as e:  # noqa
        c.violate(f'json:raise:{tag}', f'JSON board settings ({len(boards)} boards, ids {[b["id"] for b in boards]}): {type(e).__name__}: {e}', rp)
        return
    c.inc('evals')
    c.inc('json_files')
    if len(got) != len(boards):
        c.violate(f'json:count:{tag}', f'{len(got)} boards read back, {len(boards)} written', rp)
        return
    for i, (g, b) in enumerate(zip(got, boards)):
        for m in same_board(g, b, True):
            c.violate(f'json:board:{m.split()[0]}:{id_class(b["id"])}', f'JSON board {i + 1} of {len(boards)}: {m}', rp)
    c.see('cls', ('json', tag, len(boards)))


def _jwrite(w, b):
    dda = None if b.get('dda') is None else {Player[p]: {Suit[s]: v for s, v in r.items()} for p, r in b['dda'].items()}
    w.write(board_id=b['id'], dealer=adapt.PL[b['dealer']], deal=adapt.hands_obj(b['deal']), vul=adapt.VUL[b['vul']], dda=dda)


def _ser(boards):
    return [{'id': b['id'], 'dealer': b['dealer'], 'vul': b['vul'], 'deal': {s: sorted(b['deal'][s]) for s in SEATS}, 'dda': b.get('dda')} for b in boards]


def _deser(boards):
    return [{'id': b['id'], 'dealer': b['dealer'], 'vul': b['vul'], 'deal': {s: frozenset(b['deal'][s]) for s in SEATS}, 'dda': b.get('dda')} for b in boards]


# ---- PBN ----------------------------------------------------------------------------------------------------------

def pbn_case(boards: List[dict], lay: dict, c: Counter, tag: str):
    games = [RP.game_lines(b, first=lay.get('first', 'N') if not isinstance(lay.get('first'), list) else lay['first'][i],
                           order=lay.get('order', RP.REQUIRED), vul_spelling=lay.get('vuls', [None] * len(boards))[i],
                           extras=lay.get('extras', 'none')) for i, b in enumerate(boards)]
    text = RP.render_file(games, header=lay.get('header', 'none'), eol=lay.get('eol', '\n'), blank=lay.get('blank', 'empty'),
                          before=lay.get('before', 0), between=lay.get('between', 1), after=lay.get('after', 0),
                          final_eol=lay.get('final_eol', True), header_gap=lay.get('header_gap', 0))
    rp = {'kind': 'pbn', 'boards': _ser(boards), 'layout': lay, 'text': text}
    c.inc('evals')
    c.inc('pbn_files')
    try:
        got = PbnParser().parse_board_settings(io.StringIO(text, newline=''))
    except Exception as e:  # noqa
        c.violate(f'pbn:raise:{type(e).__name__}:{layout_class(lay, boards)}',
                  f'PBN file with {len(boards)} board(s), layout {lay}: parse_board_settings raised {type(e).__name__}: {e}', rp)
        return
    if len(got) != len(boards):
        c.violate(f'pbn:count:{layout_class(lay, boards)}', f'PBN file with {len(boards)} board(s), layout {lay}: {len(got)} boards read', rp)
        return
    for i, (g, b) in enumerate(zip(got, boards)):
        for m in same_board(g, b, False):
            c.violate(f'pbn:board:{m.split()[0]}:{id_class(b["id"])}:{tag}', f'PBN board {i + 1} of {len(boards)} (layout {lay}): {m}', rp)
    c.see('cls', ('pbn', tag, len(boards), lay.get('extras', 'none'), lay.get('header', 'none')))


def reuse_case(first: List[dict], lay1: dict, second: List[dict], lay2: dict, c: Counter):
    """History: ONE PbnParser object reads file 1 and then file 2; file 2 must be read as the boards of file 2."""
    def text_of(boards, lay):
        games = [RP.game_lines(b) for b in boards]
        return RP.render_file(games, header=lay.get('header', 'none'), eol=lay.get('eol', '\n'), before=lay.get('before', 0), between=lay.get('between', 1),
                              after=lay.get('after', 0), final_eol=lay.get('final_eol', True))
    t1, t2 = text_of(first, lay1), text_of(second, lay2)
    rp = {'kind': 'pbn-reuse', 'first': _ser(first), 'lay1': lay1, 'second': _ser(second), 'lay2': lay2}
    c.inc('evals')
    c.inc('pbn_files', 2)
    c.inc('parser_reuse_histories')
    p = PbnParser()
    try:
        mode = lay1.get('first_read', 'complete')
        if mode == 'complete':
            got1 = p.parse_board_settings(io.StringIO(t1, newline=''))
        elif mode == 'peek':
            # only the first game is looked at; the stream is never read to its end
            g = next(p.parse_stream(io.StringIO(t1, newline='')), None)
            got1 = None
            if first and (g or {}).get('Board') != first[0]['id']:
                c.violate('pbn:reuse:peek', f'peeking the first game of a file with boards {[b["id"] for b in first]} gave {g}', rp)
        else:
            # the first file is malformed (a game without a Deal tag): reading it fails, the parser object is kept
            bad = t1 + ('' if t1.endswith(('\n', '\r')) or not t1 else lay1.get('eol', '\n')) + lay1.get('eol', '\n') + '[Board "broken"]' + lay1.get('eol', '\n') + '[Dealer "N"]' + lay1.get('eol', '\n')
            got1 = None
            try:
                p.parse_board_settings(io.StringIO(bad, newline=''))
                c.violate('pbn:reuse:malformed-accepted', 'a game without a Deal tag was accepted as a board setting', rp)
            except Exception:  # noqa
                pass
        got2 = p.parse_board_settings(io.StringIO(t2, newline=''))
    except Exception as e:  # noqa
        c.violate(f'pbn:reuse-raise:{type(e).__name__}', f'one parser reading two files in a row raised {type(e).__name__}: {e}', rp)
        return
    for which, got, boards in (('first', got1, first), ('second', got2, second)):
        if got is None:
            continue
        ok = len(got) == len(boards) and all(not same_board(g, b, False) for g, b in zip(got, boards))
        if not ok:
            c.violate(f'pbn:reuse:{which}-file:{lay1.get("first_read", "complete")}:{"no-blank-at-end" if not lay1.get("after") else "blank-at-end"}',
                      f'one PbnParser object reading two files in a row: the {which} file (boards {[b["id"] for b in boards]}) was read as {[g.board_id for g in got]} '
                      f'(first file layout {lay1})', rp)
    c.see('cls', ('reuse', len(first), len(second), lay1.get('after', 0), lay1.get('final_eol', True)))


def layout_class(lay: dict, boards) -> str:
    """Coarse class of a layout for violation keys: which blank-line features it uses."""
    f = []
    if lay.get('before', 0) or (lay.get('header_gap', 0) and lay.get('header', 'none') != 'none'):
        f.append('blank-before-first-game')
    if lay.get('between', 1) > 1 and len(boards) > 1:
        f.append('several-blanks-between')
    if lay.get('after', 0) > 1 or (lay.get('after', 0) == 1 and not lay.get('final_eol', True) is False and lay.get('after', 0) > 1):
        f.append('several-blanks-after')
    if not boards:
        f.append('no-boards')
    return '+'.join(f) or 'plain'


def unit(args):
    kind, seed, payload = args
    c = Counter()
    if kind == 'json':
        for boards, mode, tag in payload:
            json_case(boards, mode, c, tag)
    elif kind == 'reuse':
        for a, l1, b, l2 in payload:
            reuse_case(a, l1, b, l2, c)
    else:
        for boards, lay, tag in payload:
            pbn_case(boards, lay, c, tag)
    return c


def cases(tier: str, seed: int):
    J, P = [], []
    B = [mk_board(i, seed, dda=(i % 2 == 0)) for i in range(3)]
    # JSON: 0..3 boards, dda on/off patterns, every id
    for n in range(4):
        for mode in ('manual', 'with'):
            J.append((B[:n], mode, 'count'))
    for pat in itertools.product((False, True), repeat=3):
        J.append(([mk_board(i, seed + 1, dda=d) for i, d in enumerate(pat)], 'with', 'dda'))
    for d, v in itertools.product(SEATS, VULS):
        J.append(([mk_board(0, seed, dealer=d, vul=v)], 'with', 'dealer-vul'))
    # unusual but valid double-dummy tables: empty table, a declarer with an empty row, only some declarers, all zeros
    full = scen.dda_from_seed(seed)
    for k, dda in enumerate(({}, {'N': full['N'], 'E': {}}, {'S': full['S']}, {p: {s_: 0 for s_ in r} for p, r in full.items()}, {'W': {'NT': 13}})):
        b0 = mk_board(0, seed + 3)
        b0['dda'] = dda
        J.append(([b0, mk_board(1, seed + 3, dda=True)], 'with' if k % 2 else 'manual', 'dda-shape'))
    for x in ids(tier):
        J.append(([mk_board(0, seed + 2, bid=x, dda=True), mk_board(1, seed + 2, bid=x + x)], 'manual', 'id'))
    # boards that share an id are still separate boards
    dup = [mk_board(0, seed + 9, bid='7'), mk_board(1, seed + 9, bid='8'), mk_board(2, seed + 9, bid='7', dda=True)]
    J.append((dup, 'with', 'repeated-id'))
    J.append((dup[::2], 'manual', 'repeated-id'))
    P.append((dup, dict(header='export'), 'repeated-id'))
    P.append((dup[::2], dict(eol='\r\n'), 'repeated-id'))
    # PBN
    B = [mk_board(i, seed + 3) for i in range(3)]
    # (1) full product over the small layout menus for 1 and 2 boards (and 0 and 3 boards on a sub-product)
    for n in (1, 2):
        for header, eol, blank, before, between, after, final in itertools.product(RP.HEADERS, ('\n', '\r\n'), RP.BLANKS, range(4), (1, 2, 3), range(4), (True, False)):
            if n == 1 and between != 1:
                continue
            P.append((B[:n], dict(header=header, eol=eol, blank=blank, before=before, between=between, after=after, final_eol=final), 'blanks'))
    for n in (0, 3):
        for header, eol, before, between, after in itertools.product(('none', 'export'), ('\n', '\r\n'), (0, 2), (1, 3), (0, 1, 3)):
            P.append((B[:n], dict(header=header, eol=eol, before=before, between=between, after=after), 'blanks'))
    for header in ('version', 'export', 'comment'):
        for gap in (1, 2):
            P.append((B[:2], dict(header=header, header_gap=gap), 'header-gap'))
    # (2) the four required tags in all 24 orders x deal written from each first seat x extras
    for order in itertools.permutations(RP.REQUIRED):
        for first in SEATS:
            P.append((B[:2], dict(order=list(order), first=first), 'order'))
    for extras in ('none', 'before', 'between', 'after', 'table', 'table-first', 'table-middle', 'repeat', 'all'):
        for eol in ('\n', '\r\n'):
            for first in SEATS:
                P.append((B[:2], dict(extras=extras, eol=eol, first=first, header='export'), 'extras'))
    # (3) every vulnerability spelling, every dealer
    for v, sp in ((v, sp) for v in VULS for sp in RP.VUL_SPELLINGS[v]):
        for d in SEATS:
            P.append(([mk_board(0, seed + 4, dealer=d, vul=v), mk_board(1, seed + 4, vul=v)], dict(vuls=[sp, sp]), 'vul'))
    # (4) ids
    for x in ids(tier):
        P.append(([mk_board(0, seed + 5, bid=x), mk_board(1, seed + 5, bid=x + x)], dict(header='version'), 'id'))
    # (5) deals: more deals from each first seat (voids etc. are C14's subject; here: the deal tag survives the file)
    for k in range(12 if tier == 'quick' else 60):
        P.append(([mk_board(k, seed + 6 + k)], dict(first=SEATS[k % 4], eol='\r\n' if k % 2 else '\n'), 'deal'))
    if True:
        for n in (3,):
            for header, eol, blank, before, between, after in itertools.product(RP.HEADERS, ('\n', '\r\n'), RP.BLANKS, range(4), (1, 2, 3), range(4)):
                P.append((B[:n], dict(header=header, eol=eol, blank=blank, before=before, between=between, after=after, extras='all'), 'blanks3'))
    return J, P


def reuse_cases(seed: int):
    A = [mk_board(i, seed + 7, bid=f'A{i}') for i in range(2)]
    Bb = [mk_board(i, seed + 8, bid=f'B{i}') for i in range(2)]
    out = []
    for n1, n2 in itertools.product((0, 1, 2), (1, 2)):
        for after, final, eol, header in itertools.product((0, 1, 2), (True, False), ('\n', '\r\n'), ('none', 'export')):
            out.append((A[:n1], dict(after=after, final_eol=final, eol=eol, header=header), Bb[:n2], dict(eol=eol, header=header)))
            if n1 and final:
                for mode in ('peek', 'malformed'):
                    out.append((A[:n1], dict(after=after, final_eol=final, eol=eol, header=header, first_read=mode), Bb[:n2], dict(eol=eol, header=header)))
    return out


def run(tier, seed, workers):
    J, P = cases(tier, seed)
    n = max(1, workers)
    R = reuse_cases(seed)
    units = [('json', seed, J[i::n]) for i in range(n)] + [('pbn', seed, P[i::n]) for i in range(n)] + [('reuse', seed, R[i::n]) for i in range(n)]
    tot = merge_all(pmap(unit, units, workers))
    ne = tot.get('evals')
    cov = {
        'states': ne, 'transitions': ne, 'traces_validated_against_impl': ne, 'evaluations': ne,
        'distinct_nontrivial': tot.distinct('cls'), 'json_files': tot.get('json_files'), 'pbn_files': tot.get('pbn_files'), 'parser_reuse_histories': tot.get('parser_reuse_histories'),
        'rule': 'JSON: JsonBoardSettingWriter sequences of 0..3 boards (manual/with), every dda pattern, dealers x vulnerabilities, ids = every string of length <= 2 over '
                f'{ALPHABET!r} + inner/edge double blanks.  PBN (rendered by mc/ref/pbn.py, fed with line ends preserved): full product header(4) x LF/CRLF x blank kind(3) x '
                'blank lines before(0..3) x between(1..3) x after(0..3) x final line end(2) for 1 and 2 boards, sub-product for 0 and 3 boards, header followed by blank lines; '
                'the 4 required tags in all 24 orders x deal from each first seat; extra tags before/between/after, OptimumResultTable with rows, repeated tags (first wins); '
                '7 vulnerability spellings x 4 dealers; all ids; histories in which ONE parser object reads two files in a row (first file with 0..2 boards, 0..2 blank lines at its end, with/without a final line end; the first file read completely, only peeked at through parse_stream, or malformed so that reading it fails).  Oracle: list of BoardSetting equal to the boards rendered, in order.',
        'samples': [{'pbn': '% PBN 2.1\\r\\n\\r\\n\\r\\n[Deal "E:..."]\\r\\n[Vulnerable "Love"]\\r\\n[Dealer "S"]\\r\\n[Board "a  b"]\\r\\n\\t\\r\\n\\t\\r\\n[Board ...'},
                    {'json': 'open, write(id=": ", dda), write(id=": : "), close'}],
        'exhaustive': True,
        'explanation': 'exhaustive over the stated layout menus and id alphabet (length <= 2); comments inside games are not part of the property and are not rendered',
    }
    return Result(cov, tot.violations, ['the renderer mc/ref/pbn.py writes admissible PBN 2.1 import format', 'files are presented with their line ends preserved (io.StringIO(newline=""))'])


def replay(d):
    c = Counter()
    if d['kind'] == 'pbn-reuse':
        reuse_case(_deser(d['first']), d['lay1'], _deser(d['second']), d['lay2'], c)
        return bool(c.violations), '\n'.join(f'{v.key}: {v.message}' for v in c.violations) or 'read back correctly'
    boards = _deser(d['boards'])
    if d['kind'] == 'json':
        json_case(boards, d['mode'], c, 'replay')
    else:
        pbn_case(boards, d['layout'], c, 'replay')
    return bool(c.violations), '\n'.join(f'{v.key}: {v.message}' for v in c.violations) or 'read back correctly'
