"""C04 - tricks are won, led and counted according to the laws of play.

L1  every ordered 4-tuple of distinct cards (reduced deck quick, full deck thorough) x 5 denominations x declarers through the public API;
L2  explicit-state search of the board bookkeeping (trick number, leader, counts) over a menu of trick shapes x winner positions;
L3  whole boards with hands: every play-out with <= d departures from the line "lowest legal card" (any other held card, revokes
    included) on the real engines, compared with the reference model after every card; + small-scope: all deals of 2 cards per
    seat from an 8-card deck x all play orders.
The same L3 executions also carry the oracles of C05, C06 and C11 (see play.py); each check reports its own tag."""
from __future__ import annotations

import itertools
from collections import deque
from typing import List

from bridge_env import Pair
from bridge_env.playing_phase import PlayingPhase

from .. import adapt
from ..core import Counter, Result, Violation, merge_all, pmap
from ..ref import play as RP
from ..ref.auction import BIDS
from . import play as PX
from . import scen
from .auction import clone

TAG = 'C04'
SEATS = 'NESW'
CARDS = adapt.CARDS
CI = PX.CI


# ---- L1: one trick -------------------------------------------------------------------------------------------------

def l1_unit(args):
    deck, first_cards, declarers, denoms = args
    c = Counter()
    for d0 in first_cards:
        rest = [x for x in deck if x != d0]
        for denom in denoms:
            bid = '1' + denom
            trump = PX.trump_of(bid)
            for decl in declarers:
                contract = adapt.mk_contract(bid, 0, 'None', decl)
                leader = RP.nxt(decl)
                order = [leader]
                for _ in range(3):
                    order.append(RP.nxt(order[-1]))
                if c.enough():
                    return c
                for t3 in itertools.permutations(rest, 3):
                    cards = (d0,) + t3
                    c.inc('tricks')
                    try:
                        o = PlayingPhase(contract)
                        ok = True
                        for i, x in enumerate(cards):
                            if o.active_player._name_ != order[i]:
                                ok = False
                            o.play_card(CARDS[x])
                    except Exception as e:  # noqa
                        c.violate(f'C04:trick:raise:{type(e).__name__}', f'trick {cards} (contract {bid} by {decl}) raised {e!r}', {'kind': 'trick', 'bid': bid, 'declarer': decl, 'cards': list(cards)})
                        continue
                    w = RP.trick_winner(cards, trump)
                    ws = order[w]
                    got = (o.leader._name_, o.active_player._name_, o.trick_num, o.taken_tricks[Pair.NS], o.taken_tricks[Pair.EW], ok)
                    want = (ws, ws, 2, 1 if ws in 'NS' else 0, 1 if ws in 'EW' else 0, True)
                    if got != want:
                        c.violate(f'C04:trick:{_shape(cards, trump, w)}:{PX._diff(got, want)}',
                                  f'trick {cards} (led by {leader}, contract {bid} by {decl}): (leader, on turn, trick number, NS, EW, clockwise turns) = {got}, '
                                  f'the laws give {want}', {'kind': 'trick', 'bid': bid, 'declarer': decl, 'cards': list(cards)})
                        continue
                    h = o.playing_history.history
                    if len(h) != 1 or h[0].leader._name_ != leader or tuple(CI[x] for x in h[0].cards) != cards or o.has_done() \
                            or {CI[x] for x in o.used_cards} != set(cards):
                        c.violate('C04:trick:history', f'trick {cards} led by {leader}: history {PX.pfreeze(h)}, used cards {sorted(CI[x] for x in o.used_cards)}',
                                  {'kind': 'trick', 'bid': bid, 'declarer': decl, 'cards': list(cards)})
                    c.see('shape', (_shape(cards, trump, w), denom == 'NT'))
    return c


def _shape(cards, trump, w) -> str:
    nt = sum(1 for x in cards if trump is not None and x // 13 == trump)
    led_trump = trump is not None and cards[0] // 13 == trump
    follow = sum(1 for x in cards[1:] if x // 13 == cards[0] // 13)
    return f'w{w}-trumps{nt}-{"ledtrump" if led_trump else "ledplain"}-follow{follow}'


def contracts_unit(_):
    """35 bids x 4 declarers: trump / declarer / dummy / opening leader derivation."""
    c = Counter()
    for bid in BIDS:
        for decl in SEATS:
            for dbl in (0, 1, 2):
                o = PlayingPhase(adapt.mk_contract(bid, dbl, 'Both', decl))
                got = (o.trump._name_, o.declarer._name_, o.dummy._name_, o.leader._name_, o.active_player._name_, o.trick_num, o.has_done(),
                       o.taken_tricks[Pair.NS], o.taken_tricks[Pair.EW], len(o.playing_history.history))
                want = (bid[1:], decl, RP.partner(decl), RP.nxt(decl), RP.nxt(decl), 1, False, 0, 0, 0)
                c.inc('contracts')
                if got != want:
                    c.violate(f'C04:roles:{PX._diff(got, want)}', f'contract {bid} by {decl}: (trump, declarer, dummy, leader, on turn, trick, over, NS, EW, history) = {got}, expected {want}',
                              {'kind': 'contract', 'bid': bid, 'declarer': decl})
    return c


# ---- L2: bookkeeping graph ---------------------------------------------------------------------------------------------

def shapes_for(trump):
    """Menu of trick shapes: for winner position w, four cards (relative to a base) such that position w wins."""
    # suits: a = suit led (never trump unless stated), b = other plain suit, t = trump
    plain = [s for s in range(4) if s != trump]
    a, b = plain[0], plain[1]
    out = []
    for w in range(4):
        # 'high': everybody follows, position w holds the highest
        cs = [a * 13 + r for r in (2, 3, 4, 5)]
        cs[w] = a * 13 + 12
        out.append((f'high-w{w}', w, cs))
        # 'discard': an ace of another plain suit is thrown by someone else and does not win
        cs = [a * 13 + r for r in (2, 3, 4, 5)]
        cs[w] = a * 13 + 9
        other = (w + 1) % 4 if (w + 1) % 4 != 0 else (w + 2) % 4
        if other != 0:
            cs[other] = b * 13 + 12
            out.append((f'discard-w{w}', w, cs))
        if trump is not None:
            if w != 0:
                cs = [a * 13 + r for r in (12, 11, 10, 9)]
                cs[w] = trump * 13 + 0
                out.append((f'ruff-w{w}', w, cs))
                cs = [a * 13 + r for r in (12, 11, 10, 9)]
                o2 = 1 if w != 1 else 2
                cs[o2] = trump * 13 + 3
                cs[w] = trump * 13 + 7
                out.append((f'overruff-w{w}', w, cs))
            cs = [trump * 13 + r for r in (2, 3, 4, 5)]
            cs[w] = trump * 13 + 11
            out.append((f'trumplead-w{w}', w, cs))
    return out


def l2_unit(args):
    bid, decl = args
    c = Counter()
    trump = PX.trump_of(bid)
    menu = shapes_for(trump)
    o0 = PlayingPhase(adapt.mk_contract(bid, 0, 'None', decl))
    key0 = (1, RP.nxt(decl), 0, 0)
    seen = {key0}
    frontier = deque([(o0, key0, [])])
    while frontier:
        if c.enough():
            break
        o, key, hist = frontier.popleft()
        tn, leader, ns, ew = key
        if tn > 13:
            if not o.has_done():
                c.violate('C04:graph:not-over', f'{bid} by {decl}: after 13 tricks has_done() is False', {'kind': 'graph', 'bid': bid, 'declarer': decl, 'tricks': hist})
            c.inc('final_states')
            continue
        for name, w, cs in menu:
            rp = {'kind': 'graph', 'bid': bid, 'declarer': decl, 'tricks': hist + [cs]}
            try:
                o2 = _copy.deepcopy(o)            # what search code does with a board in progress; branches must not feel each other
                seat = leader
                turn_ok = True
                for x in cs:
                    if o2.active_player._name_ != seat:
                        turn_ok = False
                    o2.play_card(CARDS[x])
                    seat = RP.nxt(seat)
            except Exception as e:  # noqa
                c.inc('transitions')
                c.violate(f'C04:graph:raise:{type(e).__name__}', f'{bid} by {decl}, trick {tn} led by {leader}, shape {name} {cs} on a deep copy of the board after {len(hist)} tricks: {e!r}', rp)
                continue
            ws = leader
            for _ in range(w):
                ws = RP.nxt(ws)
            want = (tn + 1, ws, ns + (ws in 'NS'), ew + (ws in 'EW'))
            got = (o2.trick_num, o2.leader._name_, o2.taken_tricks[Pair.NS], o2.taken_tricks[Pair.EW])
            c.inc('transitions')
            if got != want or not turn_ok or o2.active_player._name_ != ws:
                c.violate(f'C04:graph:{name.split("-")[0]}:{PX._diff(got, want)}', f'{bid} by {decl}, trick {tn} led by {leader}, shape {name} {cs}: (trick number, leader, NS, EW) = {got}, expected {want}; turns clockwise: {turn_ok}', rp)
                continue
            h = o2.playing_history.history
            if len(h) != tn or h[-1].leader._name_ != leader or [CI[x] for x in h[-1].cards] != cs or got[2] + got[3] != tn or o2.has_done() != (tn + 1 > 13):
                c.violate('C04:graph:history', f'{bid} by {decl}, trick {tn}: history entry {PX.pfreeze(h[-1]) if h else None} / counts {got} / over {o2.has_done()}', rp)
                continue
            c.see('shapes', name)
            if want not in seen:
                seen.add(want)
                frontier.append((o2, want, hist + [cs]))
    c.inc('states', len(seen))
    return c


import copy as _copy


# ---- L3 ----------------------------------------------------------------------------------------------------------------

def l3_unit(args):
    kind = args[0]
    c = Counter()
    if kind == 'dev':
        _, bid, decl, deal_seed, d = args
        deal = scen.deal_from_seed(deal_seed) if not isinstance(deal_seed, dict) else deal_seed
        PX.explore_deviations(bid, decl, deal, d, c)
        c.see('l3', (bid, decl, str(deal_seed), d))
    elif kind == 'small':
        _, deck, contracts, part = args
        small_scope(deck, contracts, part, c)
    return c


def small_deals(deck: List[int]):
    """All deals of 2 cards per seat from an 8-card deck (2520)."""
    out = []
    for n in itertools.combinations(deck, 2):
        r1 = [x for x in deck if x not in n]
        for e in itertools.combinations(r1, 2):
            r2 = [x for x in r1 if x not in e]
            for s in itertools.combinations(r2, 2):
                w = tuple(x for x in r2 if x not in s)
                out.append({'N': frozenset(n), 'E': frozenset(e), 'S': frozenset(s), 'W': frozenset(w)})
    return out


def small_scope(deck, contracts, part, c: Counter):
    deals = small_deals(deck)
    k, n = part
    for deal in deals[k::n]:
        for bid, decl in contracts:
            # all play orders: at each of the 4 first plays the seat chooses either card (departure index 0 = the other card)
            for mask in range(16):
                dep = {i: 0 for i in range(4) if mask >> i & 1}
                PX.run_playout(bid, decl, deal, dep, c, fault_from=0 if mask in (0, 15) else None)
        c.inc('small_deals')


def play_units(tier: str, seed: int, tag: str = 'C04'):
    us = []
    pairs = [(f'{1 + (i % 7)}{dn}', SEATS[(i + j + seed) % 4]) for i, dn in enumerate(PX.DENOMS) for j in range(4)]
    if tier == 'quick':
        for i, (bid, decl) in enumerate(pairs):
            us.append(('dev', bid, decl, seed * 31 + i % 2, 1))
    else:
        for i, (bid, decl) in enumerate(pairs):
            for k in range(3):
                us.append(('dev', bid, decl, seed * 31 + k, 1))
        if tag in ('C04', 'C11'):          # two departures per play-out only with the cheaper oracle profiles
            for i, (bid, decl) in enumerate(pairs[::4]):
                us.append(('dev', bid, decl, seed * 31 + 7, 2))
    # complete-suit deal: ruffs on every trick, 13-0 results
    one = {s: frozenset(range(i * 13, i * 13 + 13)) for i, s in enumerate(SEATS)}
    us += [('dev', '7S', 'W', one, 1), ('dev', '1NT', 'N', one, 1), ('dev', '2C', 'E', one, 1)]
    deck = [0, 12, 13, 25, 26, 38, 39, 51]          # deuce and ace of each suit
    contracts = [(f'1{dn}', SEATS[(i + seed) % 4]) for i, dn in enumerate(PX.DENOMS)] if tier == 'quick' else [(f'1{dn}', dc) for dn in PX.DENOMS for dc in SEATS]
    parts = 16 if tier == 'quick' else 48
    us += [('small', deck, contracts, (k, parts)) for k in range(parts)]
    return us


# faults 'light' = on the default-line play-outs and every 4th departure play-out: a refused play that leaves something behind is
# judged by each property in its own terms (trick bookkeeping, playable sets, replicas), not only by C05
PROFILE = {'C04': dict(observers=True, playable=False, do_faults='light'), 'C05': dict(observers=True, playable=False, do_faults=True),
           'C06': dict(observers=True, playable=True, do_faults='light'), 'C11': dict(observers=True, playable=False, do_faults='light')}


def run_play(tag: str, tier: str, seed: int, workers: int):
    """The shared L3 exploration with the oracle profile of the property asked for (the cheap oracles of the other three
    properties that remain active are evaluated as well, but only `tag` violations are reported by the caller)."""
    PX.set_opts(thin=(tier == 'quick'), **PROFILE[tag])
    us = play_units(tier, seed, tag)
    cs = pmap(l3_unit, us, workers)
    return merge_all(cs)


def run(tier, seed, workers):
    # L1
    if tier == 'quick':
        deck = [s * 13 + r for s in range(4) for r in (0, 7, 8, 12)]
    else:
        deck = list(range(52))
    l1_units = [(deck, [d0], list(SEATS) if tier == 'quick' else [SEATS[(d0 + seed) % 4]], PX.DENOMS) for d0 in deck]
    if tier == 'thorough':
        red = [s * 13 + r for s in range(4) for r in (0, 7, 8, 12)]
        l1_units += [(red, [d0], list(SEATS), PX.DENOMS) for d0 in red]
    t1 = merge_all(pmap(l1_unit, l1_units, workers))
    t1.merge(contracts_unit(None))
    # L2
    l2 = [(f'{1 + i}{dn}', dc) for i, dn in enumerate(PX.DENOMS) for dc in SEATS]
    t2 = merge_all(pmap(l2_unit, l2, workers))
    # L3
    t3 = run_play(TAG, tier, seed, workers)
    tot = merge_all([t1, t2, t3])
    viol = [v for v in tot.violations if v.key.startswith(TAG + ':')]
    return Result(coverage(tot, tier, TAG), viol, ASSUME)


ASSUME = ['reference model mc/ref/play.py (trick winner = highest trump else highest card of the suit led)',
          'L2 key (trick number, leader, NS, EW) is sound: play_card reads only trump, the cards of the current trick, leader, active seat, trick number and the two counters']


def coverage(tot: Counter, tier: str, tag: str) -> dict:
    plays = tot.get('plays')
    return {
        'states': tot.get('states_checked') + tot.get('states') + tot.get('tricks'),
        'transitions': plays + tot.get('transitions') + 4 * tot.get('tricks') + tot.get('faults'),
        'traces_validated_against_impl': tot.get('playouts') + tot.get('tricks') + tot.get('transitions'),
        'evaluations': tot.get('playouts') + tot.get('tricks') + tot.get('transitions') + tot.get('faults'),
        'distinct_nontrivial': tot.distinct('shape') + tot.distinct('shapes') + tot.distinct('l3') + tot.get('small_deals'),
        'single_tricks_L1': tot.get('tricks'), 'trick_shapes_seen_L1': tot.distinct('shape'), 'contracts_checked': tot.get('contracts'),
        'bookkeeping_graph_states_L2': tot.get('states'), 'bookkeeping_graph_transitions_L2': tot.get('transitions'),
        'playouts_L3': tot.get('playouts'), 'playouts_abandoned_after_violation': tot.get('playouts_abandoned'), 'cards_played_L3': plays,
        'states_checked_L3': tot.get('states_checked'), 'faults_injected': tot.get('faults'), 'playable_sets_compared': tot.get('playable_sets'),
        'small_scope_deals': tot.get('small_deals'),
        'rule': 'L1: every ordered 4-tuple of distinct cards of the ' + ('16-card deck (4 suits x {2,9,T,A})' if tier == 'quick' else 'full 52-card deck (and the 16-card deck for all declarers)') +
                ' x 5 denominations x declarers through PlayingPhase.play_card; 35 bids x 4 declarers x 3 doubling states for the role derivation.  L2: BFS over (trick number, leader, NS, EW) with '
                'a menu of trick shapes (high card, discard of a higher off-suit card, ruff, over-ruff, trump lead) x 4 winner positions, 20 contracts.  L3: PlayingPhaseWithHands + 4 ObservedPlayingPhase '
                'in lock-step with the reference model: every play-out with <= d departures from "lowest legal card" (any other held card, revokes included), d = 1 on 20 denomination/declarer pairs '
                '(+ d = 2 thorough, in the C04 and C11 runs) and on the complete-suit deal; small scope: all 2520 deals of 2 cards per seat from an 8-card deck x all 16 play orders; faults (out of turn, card not held, card already '
                'played, play after the end) injected around every departure and at every position of the default line.',
        'samples': [{'L1': 'trick (SA, H2, S2, D2) in 1H led by E -> won by position 1'}, {'L2': '1H by N, state (trick 5, leader W, NS 1, EW 3), shape overruff-w2'},
                    {'L3': '3H by S, deal seed 0, departure at position 17: card index 4 of the hand (a revoke)'}],
        'exhaustive': False,
        'explanation': 'L1, L2 and the small-scope cover are complete; L3 is complete up to the stated number of departures per play-out on the stated deals',
    }


def replay(d):
    if d.get('kind') == 'playout':
        return PX.replay(d)
    c = Counter()
    if d.get('kind') == 'trick':
        cards = d['cards']
        t = l1_unit(([x for x in cards], [cards[0]], [d['declarer']], [d['bid'][1:]]))
        v = [x for x in t.violations if d['cards'] == x.replay.get('cards')]
        return bool(v), '\n'.join(x.message for x in v) or 'trick handled correctly'
    if d.get('kind') == 'contract':
        t = contracts_unit(None)
        return bool(t.violations), '\n'.join(x.message for x in t.violations[:3]) or 'ok'
    if d.get('kind') == 'graph':
        o = PlayingPhase(adapt.mk_contract(d['bid'], 0, 'None', d['declarer']))
        b = RP.Board(d['declarer'], PX.trump_of(d['bid']))
        for cs in d['tricks']:
            for x in cs:
                o.play_card(CARDS[x])
                b.play(x)
        got = (o.trick_num, o.leader._name_, o.taken_tricks[Pair.NS], o.taken_tricks[Pair.EW], tuple(PX.pfreeze(x) for x in o.playing_history.history))
        want = (b.trick_num, b.leader, b.taken['NS'], b.taken['EW'], tuple((l, tuple(x)) for l, x in b.tricks))
        return got != want, f'got {got[:4]}, expected {want[:4]}'
    return False, 'unknown replay kind'
