"""Scenario menus shared by C08 (log) and C10 (what each seat is told): same executions, different oracle tag."""
from __future__ import annotations

import itertools
from typing import List

from ..ref import auction as RA
from . import scen

D4 = 'NESW'
V4 = ['None', 'NS', 'EW', 'Both']
POL = ['lowest_legal', 'highest_legal', 'lowest_held', 'highest_held']
ALERTS = ['', ' Alert.', '  alert. ', ' ALERT.']


def all_short_auctions(max_len: int, alphabet: List[str]) -> List[List[str]]:
    """Every complete legal auction of at most max_len calls over the alphabet (dealer-independent legality is computed
    for dealer N; legality does not depend on the dealer's name, only on positions)."""
    out = []

    def rec(h):
        if RA.finished(h):
            out.append(list(h))
            return
        if len(h) >= max_len:
            return
        legal = RA.legal(h, 'N')
        for c in alphabet:
            if c in legal:
                h.append(c)
                rec(h)
                h.pop()
    rec([])
    return out


def items(tier: str, seed: int) -> List[dict]:
    its: List[dict] = []
    names = list(scen.AUCTIONS)
    # 1. every auction of the menu, dealer/vul/policy/notation rotating with the seed
    for i, a in enumerate(names):
        nt = {s: ['rank_suit' if (i + j + seed) % 2 else 'suit_rank', ['asis', 'lower', 'upper'][(i + j + seed) % 3],
                  ALERTS[(i + j) % 4], 1] for j, s in enumerate(D4)}
        its.append(dict(spec=scen.mk_spec([scen.board(seed + i, a, D4[(i + seed) % 4], V4[(i // 4 + seed) % 4], policy=POL[(i + seed) % 4],
                                                      dda=(i % 3 == 0))], notations=nt), d=0))
    # 2. 4 dealers x 4 vulnerabilities on a passed-out and a played board
    for a in ('passout', 'open1C') if tier == 'quick' else ('passout', 'open1C', 'doubled', 'partner_first'):
        for dl in D4:
            for v in V4:
                its.append(dict(spec=scen.mk_spec([scen.board(seed + 20, a, dl, v)]), d=0))
    # 3. notation cover: 2 card notations x 3 cases x 4 alert forms on one played board
    for k, (cn, case, al) in enumerate(itertools.product(('rank_suit', 'suit_rank'), ('asis', 'lower', 'upper'), ALERTS)):
        nt = {s: [cn, case, al, 1] for s in D4}
        its.append(dict(spec=scen.mk_spec([scen.board(seed + 30 + k % 3, 'redoubled', D4[k % 4], V4[k % 4], policy=POL[k % 4])], notations=nt), d=0))
    # 4. board lists of length 1..3, every passed-out / played pattern
    for n in (1, 2, 3):
        for k, pat in enumerate(itertools.product('pq', repeat=n)):
            bs = [scen.board(seed + 40 + j, 'passout' if ch == 'p' else names[1 + (j + k + seed) % (len(names) - 1)], D4[(j + k) % 4],
                             V4[(j + 2 * k) % 4], policy=POL[(j + k) % 4], bid=f'id {k}.{j}') for j, ch in enumerate(pat)]
            its.append(dict(spec=scen.mk_spec(bs, teams={'NS': 'Team North-South', 'EW': "O'Neil (2) #1"}), d=0, priority=(n == 2)))
    # 4b. extreme results: complete-suit deals give declarer 0 or 13 tricks (undoubled, doubled, redoubled; every vulnerability)
    for k, (a, rot) in enumerate(itertools.product(('open1C', 'second', 'doubled', 'slam', 'redoubled'), range(4))):
        its.append(dict(spec=scen.mk_spec([scen.board(0, a, D4[(k + seed) % 4], V4[(k + k // 4) % 4], deal=f'onesuit:{rot}', policy=POL[k % 2])]), d=0))
    # 4c. the network delivers each message in two pieces (final LF separately); clients that stay connected after End of session
    its.append(dict(spec=scen.mk_spec([scen.board(seed + 60, 'competitive', D4[(seed + 1) % 4], V4[(seed + 2) % 4], policy='lowest_held'), scen.board(seed + 61, 'passout', 'S', 'Both')],
                                      fragment='crlf'), d=0, priority=True))
    its.append(dict(spec=scen.mk_spec([scen.board(seed + 62, 'slam', D4[seed % 4], 'EW')], linger=True), d=0, priority=True))
    # 4d. the output path already holds the log of an earlier session (the file is to be overwritten)
    old_log = '{"logs": [\n{"board_id": "left over from an earlier session"}\n]}'
    sp = scen.mk_spec([scen.board(seed + 63, 'open1C', D4[(seed + 3) % 4], 'NS'), scen.board(seed + 64, 'passout', 'E', 'None')])
    sp['existing_output'] = old_log
    its.append(dict(spec=sp, d=0))
    # 4e. two table managers (two Server objects with their own clients, ports and output files) alive in one process
    ta = scen.mk_spec([scen.board(seed + 65, 'doubled', D4[(seed + 2) % 4], 'Both')])
    ta['second_table'] = scen.mk_spec([scen.board(seed + 66, 'third', D4[(seed + 3) % 4], 'NS'), scen.board(seed + 67, 'passout', 'W', 'EW')], teams={'NS': 'Gamma', 'EW': 'Delta'})
    its.append(dict(spec=ta, d=0, priority=True))
    # 4f. turned boards: the same dealer-relative auction, deal and play on every board of a session, so that the boards differ only
    # in who declares (same final contract, same doubling, same table vulnerability, same trick count; declarers of both sides)
    turned = list(itertools.product((('open1C', 0), ('doubled', 1), ('slam', 2), ('second', 3), ('partner_first', 1)), ('NS', 'EW')))
    if tier == 'quick':
        turned = [t for k, t in enumerate(turned) if (k + seed) % 2 == 0]
    for (a, r0), v in turned:
        bs = [scen.board(0, a, D4[(j + seed) % 4], v, deal=f'onesuit:{(r0 - (j + seed)) % 4}', policy='lowest_legal', bid=f'turned {j}') for j in range(4)]
        its.append(dict(spec=scen.mk_spec(bs), d=0))
    # 5. schedules
    p1 = scen.mk_spec([scen.board(seed, 'passout', D4[seed % 4], V4[seed % 4])])
    q1 = scen.mk_spec([scen.board(seed + 1, 'doubled', D4[(seed + 1) % 4], V4[(seed + 1) % 4], policy='lowest_held')])
    pq = scen.mk_spec([scen.board(seed, 'passout', 'S', 'NS'), scen.board(seed + 2, 'second', 'W', 'EW')])
    if tier == 'quick':
        its += [dict(spec=p1, d=1, priority=True, inner=True), dict(spec=q1, d=1, priority=True, inner=True), dict(spec=pq, d=1, priority=True, inner=True)]
    else:
        its += [dict(spec=p1, d=2, priority=True, inner=True), dict(spec=q1, d=2, priority=True, inner=True),
                dict(spec=pq, d=2, priority=True, inner=True)]
        # 6. every complete auction of <= 6 calls over a 7-call alphabet, dealer and vulnerability rotating
        for k, a in enumerate(all_short_auctions(6, ['Pass', 'X', 'XX', '1C', '1H', '2C', '7NT'])):
            its.append(dict(spec=scen.mk_spec([scen.board(seed + 50 + k % 5, a, D4[k % 4], V4[(k // 4) % 4], policy=POL[k % 4])]), d=0))
    return its
