"""C08 - the table manager's log records exactly what was played, independent of thread timing."""
from . import session_menu, sessions
from ..core import Result, merge_all, pmap, Counter

TAG = 'C08'
RULE = ('sessions of the real server with 4 scripted conforming clients; scenario menu: every auction shape of the menu '
        '(each seat declarer, doubled, redoubled, partner named first, superseded double, both sides same suit, passed out), '
        '4 dealers x 4 vulnerabilities, 2 card notations x 3 letter cases x 4 alert forms, 4 play policies (incl. revokes), board '
        'lists of length 1-3 in every passed-out/played pattern, (thorough) every complete auction of <= 6 calls over '
        '{Pass,X,XX,1C,1H,2C,7NT}; schedules: default + priority schedules, and all schedules with <= d deviations on the '
        'schedule scenarios; oracle: parsed log == records computed by the reference table manager (auction, play, score '
        'reference models), and identical log bytes across all schedules of a scenario')
ASSUME = ['reference models mc/ref/{auction,play,score,protocol}.py', 'virtual primitives conform to CPython (setup conformance suite)']


def run_tag(tag, tier, seed, workers):
    its = session_menu.items(tier, seed)
    inner = [i for i in its if i.get('inner')]
    outer = [i for i in its if not i.get('inner')]
    cs = pmap(lambda it: sessions.run_item(it, 1), outer, workers)
    cs += [sessions.run_item(it, workers) for it in inner]
    nb = 0
    if tag == 'C08':
        # sessions played by four BUNDLED clients (which follow whatever the table manager announces, where a transcript player would
        # stop at the first departure): the log must still be what the rules give for the players' decisions
        from . import C11net
        net_items, _ = C11net.items(tier, seed)
        net_items = [it for it in net_items if it.get('play') in ('lowest', 'highest') and it.get('bidding', 'scripted') == 'scripted']
        ncs = pmap(lambda it: C11net.run_item(it, 1), net_items, workers)
        for c in ncs:
            c.n.pop('scenarios', None)
        cs += ncs
        nb = len(net_items)
    res = sessions.finish(tag, its, cs, RULE if tag == 'C08' else None, ASSUME)
    if nb:
        res.coverage['sessions_with_bundled_clients'] = nb
        res.coverage['rule'] += f'; + {nb} sessions (12-auction menu, 4 dealers x 4 vulnerabilities, a 3-board session) played by four bundled Clients, log compared with the reference records'
    return res


def run(tier, seed, workers):
    return run_tag(TAG, tier, seed, workers)


replay = sessions.replay
