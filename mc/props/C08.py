"""C08 - the table manager's log records exactly what was played, independent of thread timing."""
from . import session_menu, sessions
from ..core import Result, merge_all, pmap, Counter

TAG = 'C08'
RULE = ('sessions of the real server with 4 scripted conforming clients; scenario menu: every auction shape of the menu '
        '(each seat declarer, doubled, redoubled, partner named first, superseded double, both sides same suit, passed out), '
        '4 dealers x 4 vulnerabilities, 2 card notations x 3 letter cases x 4 alert forms, 4 play policies (incl. revokes), board '
        'lists of length 1-3 in every passed-out/played pattern, (thorough) every complete auction of <= 6 calls over '
        '{Pass,X,XX,1C,1H,2C,7NT}; schedules: default + priority schedules, and all schedules with <= d deviations on the '
        'schedule scenarios; oracle: parsed log == records computed by the reference table manager (auction, play, score '
        'reference models), and identical log bytes across all schedules of a scenario; sessions of four turned boards (same contract and '
        'tricks, every declarer); the scoring step over 35 bids x 3 doublings x 4 vulnerabilities x 4 declarers x 14 trick counts in 3 orders')
ASSUME = ['reference models mc/ref/{auction,play,score,protocol}.py', 'virtual primitives conform to CPython (setup conformance suite)']


def score_orders(seed) -> Counter:
    """The scoring step of the per-board loop on its own: every final contract (35 bids x undoubled/doubled/redoubled x 4 table
    vulnerabilities x 4 declarers) x every trick count 0..13, asked in two enumeration orders in ONE process (declarer outermost, then
    declarer innermost), each answer compared with the reference scorer: the score of a board must not depend on which boards were
    scored before it."""
    from bridge_env import Bid, Contract, Player, Vul
    from bridge_env.score import calc_score
    from ..ref import score as RS
    c = Counter()
    vuls = {'None': Vul.NONE, 'NS': Vul.NS, 'EW': Vul.EW, 'Both': Vul.BOTH}
    bids = [b for b in Bid if b.level is not None]
    dims = dict(decl=list('NESW'), vul=list(vuls), bid=bids, dbl=[0, 1, 2], tricks=list(range(14)))
    for order in (('decl', 'vul', 'bid', 'dbl', 'tricks'), ('tricks', 'bid', 'dbl', 'vul', 'decl'), ('vul', 'dbl', 'tricks', 'decl', 'bid')):
        import itertools
        for combo in itertools.product(*(dims[k] for k in order)):
            v = dict(zip(order, combo))
            b = v['bid']
            con = Contract(b, x=v['dbl'] == 1, xx=v['dbl'] == 2, vul=vuls[v['vul']], declarer=Player[v['decl']])
            c.inc('score_calls')
            got = calc_score(con, v['tricks'])
            want = RS.duplicate_score(b.level, b.suit.name if b.suit.name != 'NT' else 'NT', v['dbl'], RS.side_vulnerable(v['vul'], v['decl']), v['tricks'])
            if got != want:
                c.violate('C08:score-order', f"calc_score({b.name}{'x' * v['dbl']} by {v['decl']}, table vulnerability {v['vul']}, {v['tricks']} tricks) = {got} "
                            f"when asked in the order {'/'.join(order)} of one process, the rules give {want}",
                            {'kind': 'score-order', 'order': list(order), 'bid': b.name, 'dbl': v['dbl'], 'vul': v['vul'], 'decl': v['decl'], 'tricks': v['tricks']})
                if c.enough():
                    return c
    return c


def run_tag(tag, tier, seed, workers):
    its = session_menu.items(tier, seed)
    inner = [i for i in its if i.get('inner')]
    outer = [i for i in its if not i.get('inner')]
    cs = pmap(lambda it: sessions.run_item(it, 1), outer, workers)
    cs += [sessions.run_item(it, workers) for it in inner]
    nb = 0
    if tag == 'C08':
        # sessions played by four BUNDLED clients (which follow whatever the table manager announces, where a transcript player would
        # stop at the first departure): the log must still be what the rules give for the players' decisions
        from . import C11net
        net_items, _ = C11net.items(tier, seed)
        net_items = [it for it in net_items if it.get('play') in ('lowest', 'highest') and it.get('bidding', 'scripted') == 'scripted']
        ncs = pmap(lambda it: C11net.run_item(it, 1), net_items, workers)
        for c in ncs:
            c.n.pop('scenarios', None)
        cs += ncs
        nb = len(net_items)
        cs.append(score_orders(seed))
    res = sessions.finish(tag, its, cs, RULE if tag == 'C08' else None, ASSUME)
    if nb:
        res.coverage['sessions_with_bundled_clients'] = nb
        res.coverage['rule'] += f'; + {nb} sessions (12-auction menu, 4 dealers x 4 vulnerabilities, a 3-board session) played by four bundled Clients, log compared with the reference records'
    return res


def run(tier, seed, workers):
    return run_tag(TAG, tier, seed, workers)


def replay(d: dict):
    if d.get('kind') == 'score-order':
        c = score_orders(0)      # the answer depends on what was asked before: replay the whole enumeration
        return bool(c.violations), '\n'.join(f'{v.key}: {v.message}' for v in c.violations[:5])
    return sessions.replay(d)
