"""C05 - only the seat on turn can play, only a card it holds; cards are conserved.

Rides on the L3 play-out exploration of C04 (real PlayingPhaseWithHands + four ObservedPlayingPhase in lock-step with the
reference model) with fault injection switched on: at every position of every default-line play-out, and around every
departure of the deviation play-outs, each refusable play is offered to every engine that can see the relevant hand -
a card held by each seat not on turn (out of turn), a card of each other seat by the seat on turn (not held), a card
already played, any play after the last card - and must raise and leave the complete state unchanged; after every
accepted play the remaining hands and the played cards must partition the original deal."""
from ..core import Result
from . import C04

TAG = 'C05'


def run(tier, seed, workers):
    tot = C04.run_play(TAG, tier, seed, workers)
    viol = [v for v in tot.violations if v.key.startswith(TAG + ':')]
    cov = C04.coverage(tot, tier, TAG)
    cov['rule'] = ('L3 play-outs only (see C04 for their definition) with fault injection on the table engine and the four observers: out-of-turn plays of held cards '
                   '(lowest and highest) by each of the three other seats, plays by the seat on turn of a card held by each other seat, of the last and of the first card '
                   'already played, and any play after the 52nd card; every fault must raise and leave every attribute unchanged (snapshot comparison); after every accepted play '
                   'hands + played cards == original deal, no card twice, all hands empty at the end.  Observers are asked only about hands they can see (own, exposed dummy). '
                   + cov['rule'].split('L3:')[-1])
    cov['samples'] = [{'fault': 'out-of-turn', 'state': '3H by S after 17 plays', 'seat': 'W', 'card': 'lowest held'},
                      {'fault': 'after-the-end', 'state': 'after 52 plays', 'engine': 'observer-N'}]
    return Result(cov, viol, C04.ASSUME[:1] + ['an observer is required to refuse only plays whose illegality it can see (the turn; possession in its own hand and in an exposed dummy)'],
                  level='fault_enumeration')


replay = C04.replay
