"""C05 - only the seat on turn can play, only a card it holds; cards are conserved.

Rides on the L3 play-out exploration of C04 (real PlayingPhaseWithHands + four ObservedPlayingPhase in lock-step with the
reference model) with fault injection switched on: at every position of every default-line play-out, and around every
departure of the deviation play-outs, each refusable play is offered to every engine that can see the relevant hand -
a card held by each seat not on turn (out of turn), a card of each other seat by the seat on turn (not held), a card
already played, any play after the last card - and must raise and leave the complete state unchanged; after every
accepted play the remaining hands and the played cards must partition the original deal."""
from ..core import Result
from . import C04

TAG = 'C05'


def twin_tables(seed: int):
    """Two boards dealt by decoding the SAME encodings (PBN text, binary vectors, JSON lists) - two tables of a duplicate event, a
    replay - and played alternately: each table must conserve its own 52 cards, whatever the other does."""
    from bridge_env import Hands, Player
    from bridge_env.data_handler.json_handler.parser import hands_parser
    from bridge_env.data_handler.json_handler.writer import convert_deal
    from ..core import Counter
    from . import play as PX, scen
    from .. import adapt
    c = Counter()
    for k, enc in enumerate(('pbn', 'binary', 'json', 'pbn')):
        deal = scen.deal_from_seed(seed * 13 + k)
        src = adapt.hands_obj(deal)
        code = {'pbn': src.to_pbn(Player.W), 'binary': src.to_binary(), 'json': convert_deal(src)}[enc]
        dec = {'pbn': Hands.convert_pbn, 'binary': Hands.convert_binary, 'json': hands_parser}[enc]
        rigs = []
        for t in range(2):
            r = PX.Rig(f'{2 + k}{PX.DENOMS[k]}', 'NESW'[(k + t) % 4], deal, c, observers=False, playable=False, do_faults=False)
            r.full = PX.PlayingPhaseWithHands(r.contract, dec(code))         # this table's hands come from the decoder
            rigs.append(r)
        try:
            for step in range(52):
                for r in rigs:
                    seat = r.ref.active
                    r.play(PX.default_card(r.hands, seat, r.ref.led()))
                    r.check()
            c.inc('twin_tables')
        except PX.Broken:
            pass
    return c


def run(tier, seed, workers):
    tot = C04.run_play(TAG, tier, seed, workers)
    tot.merge(twin_tables(seed))
    viol = [v for v in tot.violations if v.key.startswith(TAG + ':')]
    cov = C04.coverage(tot, tier, TAG)
    cov['twin_tables_from_one_encoding'] = tot.get('twin_tables')
    cov['rule'] = ('L3 play-outs only (see C04 for their definition) with fault injection on the table engine and the four observers: out-of-turn plays of held cards '
                   '(lowest and highest) by each of the three other seats, plays by the seat on turn of a card held by each other seat, of the last and of the first card '
                   'already played, and any play after the 52nd card; every fault must raise and leave every attribute unchanged (snapshot comparison); after every accepted play '
                   'hands + played cards == original deal, no card twice, all hands empty at the end.  Observers are asked only about hands they can see (own, exposed dummy). '
                   + cov['rule'].split('L3:')[-1])
    cov['samples'] = [{'fault': 'out-of-turn', 'state': '3H by S after 17 plays', 'seat': 'W', 'card': 'lowest held'},
                      {'fault': 'after-the-end', 'state': 'after 52 plays', 'engine': 'observer-N'}]
    return Result(cov, viol, C04.ASSUME[:1] + ['an observer is required to refuse only plays whose illegality it can see (the turn; possession in its own hand and in an exposed dummy)'],
                  level='fault_enumeration')


replay = C04.replay
