"""C02 - rotation from the dealer, per-seat shares, termination exactly when it must, nothing after the end."""
from . import C01

TAG = 'C02'


def run(tier, seed, workers):
    return C01.run_tagged(TAG, tier, seed, workers, C01.units(tier, seed))


replay = C01.A.replay
