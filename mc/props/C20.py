"""C20 - admission seats one conforming client per seat and turns the others away.

(1) Sequential state graph, complete: states = seat tables reachable with three team names (one of them empty); events = the 24
    request types (4 seats x 3 teams x protocol versions {18, 17}).  Every (state, request) pair is executed on the real server: clients arrive
    one after the other in the order <history reaching the state> + <the request> + <requests completing the table>, then one
    passed-out board is played.  Every verdict, every seated client's complete conversation (team line included), the closing of
    refused connections and the start of the first board are compared with the reference admission model.
(2) Concurrent arrivals: sets of 5-6 clients (4 acceptable + wrong version + duplicate seat / wrong team) all started at once; all
    schedules with <= d deviations (connect, verdict event, thread start / is_alive, seat-table accesses are scheduling points); the
    oracle is evaluated on the accept order observed in each execution."""
from __future__ import annotations

import itertools
from collections import deque
from typing import Dict, List, Optional, Tuple

from ..core import Counter, Result, merge_all, pmap
from ..ref import protocol as P
from ..sched import explore, prims, session, world
from . import scen

TAG = 'C20'
SEATS = 'NESW'
TEAMS = ['Alpha', 'Beta B', '']            # the empty name is a well-formed team name too
REQUESTS = [(s, t, v) for s in SEATS for t in TEAMS for v in (18, 17)]


def full(table) -> bool:
    return all(v is not None for v in table.values())


def partner(s):
    return SEATS[(SEATS.index(s) + 2) % 4]


def admit(table: Dict[str, Optional[str]], req) -> str:
    """Reference admission: 'seated' | 'error'."""
    seat, team, ver = req
    if ver != 18:
        return 'error'
    if table[seat] is not None:
        return 'error'
    pt = table[partner(seat)]
    if pt is not None and pt != team:
        return 'error'
    return 'seated'


def run_reference(reqs) -> Tuple[List[str], Dict[str, Optional[str]]]:
    table = {s: None for s in SEATS}
    out = []
    for r in reqs:
        if full(table):
            out.append('ignored')
            continue
        v = admit(table, r)
        out.append(v)
        if v == 'seated':
            table[r[0]] = r[1]
    return out, table


def completing(table) -> List[tuple]:
    t = dict(table)
    out = []
    for s in SEATS:
        if t[s] is None:
            team = t[partner(s)] if t[partner(s)] is not None else TEAMS[SEATS.index(s) % 2]
            out.append((s, team, 18))
            t[s] = team
    return out


def reachable_states():
    """BFS over seat tables; returns {frozen table: history of accepted requests}."""
    t0 = tuple(None for _ in SEATS)
    seen = {t0: []}
    q = deque([t0])
    while q:
        t = q.popleft()
        table = dict(zip(SEATS, t))
        for r in REQUESTS:
            if admit(table, r) == 'seated':
                t2 = tuple(r[1] if s == r[0] else table[s] for s in SEATS)
                if t2 not in seen:
                    seen[t2] = seen[t] + [r]
                    q.append(t2)
    return seen


def plan_for(seed: int) -> P.BoardPlan:
    return P.BoardPlan('adm-1', SEATS[seed % 4], ['None', 'NS', 'EW', 'Both'][seed % 4], scen.deal_from_seed(seed), ['Pass'] * 4)


def client_script(req, verdict: str, final_table, plan: P.BoardPlan, hold: bool = False):
    seat, team, ver = req
    it = [('send', P.connect_line(seat, team, ver))]
    if verdict == 'error':
        # a refused peer either reads to the end of the stream and lets go, or holds on to its socket until the session is over
        return it + [('recv', 'seated', ('error',)), ('hold',) if hold else ('eof',)]
    nt = P.DEFAULT_NOTATION
    it += [('recv', 'seated', ('seated', seat, team)), ('send', f'{P.FORMAL[seat]} ready for teams'),
           ('recv', 'teams', ('teams', final_table['N'], final_table['E'])), ('send', f'{P.FORMAL[seat]} ready to start')]
    it += P.board_conversation(seat, 1, plan, nt)
    it.append(('recv', 'end', ('end',)))
    return it


def sequential_item(args) -> Counter:
    reqs, seed, idx_tested = args[:3]
    hold = len(args) > 3 and args[3]
    c = Counter()
    plan = plan_for(seed)
    verdicts, table = run_reference(reqs)
    assert full(table), reqs
    clients = []
    for i, (r, v) in enumerate(zip(reqs, verdicts)):
        if v == 'ignored':
            continue
        clients.append(session.ClientSpec(f'c{i}-{r[0]}{TEAMS.index(r[1]) if r[1] in TEAMS else "x"}v{r[2]}', r[0], client_script(r, v, table, plan, hold), gate=i))
    rp = {'kind': 'admission-seq', 'requests': [list(r) for r in reqs], 'seed': seed, 'hold': bool(hold)}
    x = world.execute(session.scripted_setup([plan], clients), prims.Policy(), horizon=500_000)
    if x.status == 'internal':
        raise prims.InternalError(str(x.detail))
    c.inc('executions')
    c.inc('steps', x.nsteps)
    c.inc('points', len(x.points))
    tested = reqs[idx_tested]
    tag = f'{verdicts[idx_tested]}-{"v17" if tested[2] != 18 else "v18"}{"-refused-peer-holds-its-socket" if hold else ""}'
    judge_common(x, c, rp, tag, reqs, verdicts, [cl.name for cl in clients])
    c.see('cls', (tuple(sorted((s, t) for s, t in run_reference(reqs[:idx_tested])[1].items() if t is not None)), tested))
    return c


def judge_common(x, c: Counter, rp, tag, reqs, verdicts, names):
    e = x.extra
    if x.status == 'mismatch':
        d = x.detail
        c.violate(f'C20:conversation:{d.get("expected", ["?"])[0] if isinstance(d.get("expected"), list) else d.get("expected")}:{tag}',
                  f'arrivals {reqs}: {d["client"]} expected {d.get("expected")} at script item {d["item"]}, the server sent {d.get("got")!r}', rp)
        return
    if x.status != 'complete':
        c.violate(f'C20:{x.status}:{tag}', f'arrivals {reqs}: the session did not complete ({x.status}: {x.detail})', rp)
        return
    if not e.get('returned'):
        c.violate(f'C20:server-failed:{tag}', f'arrivals {reqs}: Server.run ended with {e.get("main_exc")!r}', rp)
    for n in names:
        if e['client_end'].get(n) != 'script complete':
            c.violate(f'C20:client-incomplete:{tag}', f'arrivals {reqs}: client {n} ended with {e["client_end"].get(n)!r}', rp)
    i = 0
    for r, v in zip(reqs, verdicts):
        if v == 'error':
            nm = next(n for n in names if n.startswith(f'c{reqs.index(r)}-')) if False else None
    for n in names:
        k = int(n[1:n.index('-')])
        if verdicts[k] == 'error' and not e['conn_closed'].get(n, False):
            c.violate(f'C20:refused-not-closed:{tag}', f'arrivals {reqs}: the refused connection of {n} was not closed by the server', rp)
    for t, st, exc in e.get('seat_threads', []):
        if exc is not None:
            c.violate(f'C20:seat-thread-exception:{tag}', f'arrivals {reqs}: seat thread {t} ended with {exc}', rp)


def sequential_items(seed: int, tier: str):
    states = reachable_states()
    items = []
    for t, hist in states.items():
        table = dict(zip(SEATS, t))
        if full(table):
            continue
        for r in REQUESTS:
            v = admit(table, r)
            t2 = dict(table)
            if v == 'seated':
                t2[r[0]] = r[1]
            reqs = hist + [r] + completing(t2)
            items.append((reqs, seed, len(hist)))
            if v == 'error':
                items.append((reqs, seed, len(hist), True))
    # refusals in a row, and a refusal as the very last arrival before the table fills up
    extra = [[('N', TEAMS[0], 17), ('N', TEAMS[0], 17), ('N', TEAMS[0], 18), ('N', TEAMS[1], 18), ('S', TEAMS[1], 18), ('S', TEAMS[0], 18), ('E', TEAMS[0], 18),
              ('E', TEAMS[1], 18), ('W', TEAMS[1], 17), ('W', TEAMS[0], 18)]]
    # team names that differ only in white space are different names
    for a, b in (('Red  Sox', 'Red Sox'), ('Red Sox', 'Red  Sox'), ('a\tb', 'a b'), ('a.b', 'a b')):
        extra.append([('N', a, 18), ('S', b, 18), ('S', a, 18), ('E', b, 18), ('W', a, 18), ('W', b, 18)])
    for reqs in extra:
        items.append((reqs, seed, 0))
    return items, len(states)


# ---- concurrent arrivals ---------------------------------------------------------------------------------------------

def concurrent_sets(seed: int):
    A, B, Z = TEAMS
    base = [('N', A, 18), ('E', B, 18), ('S', A, 18), ('W', B, 18)]
    return [
        base + [('N', A, 17)],                                  # wrong version
        base + [('N', A, 18)],                                  # duplicate seat, same team (either may win)
        base + [('S', B, 18), ('N', B, 18)],                    # a second pair for N/S under the other team name: whichever pair forms first wins
        base + [('E', B, 17), ('W', A, 18)],                    # two troublemakers
        [('N', Z, 18), ('E', B, 18), ('S', Z, 18), ('W', B, 18), ('N', Z, 18), ('S', A, 18)],     # empty team name for N/S, a duplicate and a stranger
    ]


def concurrent_ctx(reqs, seed):
    plan = plan_for(seed)

    def factory():
        clients = []
        for i, r in enumerate(reqs):
            # adaptive peer: accepts either verdict; if seated it plays the board; teams are recorded, not asserted
            it = [('send', P.connect_line(*r)), ('recv', 'seated', ('seated', r[0], r[1])), ('send', f'{P.FORMAL[r[0]]} ready for teams'),
                  ('recv', 'teams', ('teams', None, None)), ('send', f'{P.FORMAL[r[0]]} ready to start')]
            it += P.board_conversation(r[0], 1, plan, P.DEFAULT_NOTATION)
            it.append(('recv', 'end', ('end',)))
            clients.append(session.ClientSpec(f'c{i}-{r[0]}{TEAMS.index(r[1])}v{r[2]}', r[0], it, adaptive=True, optional=True))
        return session.scripted_setup([plan], clients)

    def judge(x, c: Counter, choices):
        rp = {'kind': 'admission-conc', 'requests': [list(r) for r in reqs], 'seed': seed, 'choices': list(x.choices)}
        e = x.extra
        c.see('status', x.status)
        if x.status == 'mismatch':
            d = x.detail
            c.violate(f'C20:conc:conversation', f'concurrent arrivals {reqs}: {d["client"]} expected {d.get("expected")} at item {d["item"]}, server sent {d.get("got")!r}', rp)
            return
        order = e['accept_order']
        by_name = {f'c{i}-{r[0]}{TEAMS.index(r[1])}v{r[2]}': r for i, r in enumerate(reqs)}
        seq = [by_name[n] for n in order]
        exp, table = run_reference(seq)
        got = [e['verdicts'].get(n, ('ignored',))[0] for n in order]
        c.see('orders', tuple(order))
        if x.status in ('complete', 'deadlock') and not full(table) and len(order) == len(reqs):
            # in this arrival order a troublemaker took a seat and nobody is left to offer the remaining seat an acceptable
            # request: the premise "each seat eventually offered an acceptable one" does not hold; the server rightly keeps waiting
            c.inc('orders_outside_the_premise')
            if got != exp:
                c.violate('C20:conc:verdicts', f'concurrent arrivals accepted in the order {order}: verdicts {got}, the admission rules give {exp}', rp)
            return
        if x.status != 'complete':
            c.violate(f'C20:conc:{x.status}', f'concurrent arrivals {reqs}: the session did not complete ({x.status}: {x.detail})', rp)
            return
        if got != exp:
            c.violate('C20:conc:verdicts', f'concurrent arrivals accepted in the order {order}: verdicts {got}, the admission rules give {exp}', rp)
            return
        if not full(table) or not e.get('returned'):
            c.violate('C20:conc:table', f'accept order {order}: table {table}, Server.run returned: {e.get("returned")} ({e.get("main_exc")!r})', rp)
        seated = [n for n, v in zip(order, got) if v == 'seated']
        for n in seated:
            if e['client_end'].get(n) != 'script complete':
                c.violate('C20:conc:seated-client-incomplete', f'accept order {order}: seated client {n} ended with {e["client_end"].get(n)!r}', rp)
            ts = e['teams_seen'].get(n)
            if ts is None or ts[1:] != (table['N'], table['E']):
                c.violate('C20:conc:teams', f'accept order {order}: {n} was told teams {ts}, seated are N/S {table["N"]!r} E/W {table["E"]!r}', rp)
        for n, v in zip(order, got):
            if v == 'error' and not e['conn_closed'].get(n, False):
                c.violate('C20:conc:refused-not-closed', f'accept order {order}: refused connection {n} not closed', rp)
        c.see('outcome', (tuple(order), tuple(got)))
    ctx = explore.Ctx(factory, judge, horizon=500_000)
    return ctx


def run(tier, seed, workers):
    items, nstates = sequential_items(seed, tier)
    cs = pmap(sequential_item, items, workers, chunksize=8)
    conc = Counter()
    # sequential arrivals (each peer connects when the previous one has its verdict) under all schedules with <= 1 deviation: the
    # accept loop, the verdict signal and the seat threads may still interleave in every way that one delay allows
    A_, B_, Z_ = TEAMS
    for reqs in ([('N', A_, 18), ('E', B_, 18), ('S', A_, 18), ('W', B_, 18)],
                 [('W', Z_, 18), ('W', A_, 18), ('S', B_, 17), ('N', B_, 18), ('S', B_, 18), ('E', A_, 18), ('E', Z_, 18)]):
        plan = plan_for(seed)
        verdicts, table = run_reference(reqs)

        def factory(reqs=reqs, verdicts=verdicts, table=table, plan=plan):
            cl = [session.ClientSpec(f'c{i}-{r[0]}{TEAMS.index(r[1])}v{r[2]}', r[0], client_script(r, v, table, plan), gate=i)
                  for i, (r, v) in enumerate(zip(reqs, verdicts)) if v != 'ignored']
            return session.scripted_setup([plan], cl)

        def jd(x, c, choices, reqs=reqs, verdicts=verdicts):
            c.see('status', x.status)
            names = [f'c{i}-{r[0]}{TEAMS.index(r[1])}v{r[2]}' for i, (r, v) in enumerate(zip(reqs, verdicts)) if v != 'ignored']
            judge_common(x, c, {'kind': 'admission-seq', 'requests': [list(r) for r in reqs], 'seed': seed, 'choices': list(x.choices)}, 'sequential-with-one-delay', reqs, verdicts, names)
        explore.bounded(explore.Ctx(factory, jd, horizon=500_000), 1 if tier == 'quick' else 2, workers, conc)
        conc.inc('sequential_sets_under_schedules')
    for reqs in concurrent_sets(seed):
        ctx = concurrent_ctx(reqs, seed)
        explore.bounded(ctx, 1 if tier == 'quick' else 2, workers, conc)
        conc.inc('concurrent_sets')
    tot = merge_all(cs + [conc])
    ex = tot.get('executions')
    cov = {
        'states': nstates + tot.get('points'), 'transitions': len(items) + tot.get('steps'), 'traces_validated_against_impl': ex,
        'evaluations': ex, 'distinct_nontrivial': tot.distinct('cls') + tot.distinct('outcome'),
        'seat_table_states': nstates, 'state_request_pairs_executed': len(items), 'concurrent_client_sets': conc.get('concurrent_sets'),
        'concurrent_executions': conc.get('executions'), 'distinct_accept_orders_seen': conc.distinct('orders'),
        'distinct_concurrent_outcomes': conc.distinct('outcome'), 'accept_orders_outside_the_premise': conc.get('orders_outside_the_premise'), 'deviation_bound_completed': conc.maxes.get('deviation_bound_completed', 0),
        'execution_outcomes': sorted(tot.sets.get('status', [])),
        'rule': 'sequential: BFS over the seat tables reachable with three team names, one of them the empty string (100 states); in each state that is not full each of the 24 request types (4 seats x 3 teams x versions 18/17) is '
                'executed on the real server as <history> + <request> + <completing requests>, clients arriving one after the other, followed by one passed-out board; strict transcript players: every verdict, '
                'team line, board conversation and End of session compared with the reference; refused connections must be closed (each refusal both with a peer that reads to end-of-stream and lets go, and with a peer that holds on to its socket until the session is over).  Concurrent: 4 client sets of 5-6 peers started at once, all schedules '
                'with <= d deviations, verdicts/teams judged against the reference run on the accept order observed',
        'samples': [{'state': {'N': 'Alpha', 'E': None, 'S': None, 'W': 'Beta B'}, 'request': ['S', 'Beta B', 18], 'expected': 'error (partner has another team name)'},
                    {'concurrent': [['N', 'Alpha', 18], ['E', 'Beta B', 18], ['S', 'Alpha', 18], ['W', 'Beta B', 18], ['S', 'Beta B', 18]], 'schedules': '<= d deviations'}],
        'exhaustive': False,
        'explanation': 'the sequential graph is complete for three team names; concurrent arrivals are complete up to the stated deviation bound',
    }
    viol = [v for v in tot.violations if v.key.startswith(TAG + ':')]
    return Result(cov, viol, ['reference admission rules (version, seat free, partner team equal)', 'virtual primitives (Engine B)'])


def replay(d):
    c = Counter()
    reqs = [tuple(r) for r in d['requests']]
    if d['kind'] == 'admission-seq' and d.get('choices'):
        plan = plan_for(d['seed'])
        verdicts, table = run_reference(reqs)
        cl = [session.ClientSpec(f'c{i}-{r[0]}{TEAMS.index(r[1])}v{r[2]}', r[0], client_script(r, v, table, plan), gate=i)
              for i, (r, v) in enumerate(zip(reqs, verdicts)) if v != 'ignored']
        x = world.execute(session.scripted_setup([plan], cl), prims.ReplayPolicy(d['choices']), horizon=500_000)
        judge_common(x, c, d, 'replay', reqs, verdicts, [s.name for s in cl])
    elif d['kind'] == 'admission-seq':
        c = sequential_item((reqs, d['seed'], 0, d.get('hold', False)))
    else:
        ctx = concurrent_ctx(reqs, d['seed'])
        x = explore.run_once(ctx, d['choices'])
        ctx.judge(x, c, d['choices'])
    return bool(c.violations), '\n'.join(f'{v.key}: {v.message}' for v in c.violations) or 'admission as specified'
