"""C14 - every deal survives every encoding round trip; encodings are canonical; the random dealer deals the pack.

The 5.4e28 deals are not enumerable and are not sampled: structured covers, each enumerated completely -
 (i)   for every seat x suit x EVERY holding in that suit (8192) a deal containing it (rest filled deterministically from VERIF_SEED);
 (ii)  every void pattern of a hand (15 per seat) and the 13-0-0-0 hands;
 (iii) all 16 empty/full patterns of partial deals;
 (iv)  encode / mutate / re-encode histories on one Hands object (a played card, an emptied hand);
 (v)   the random dealer with random.shuffle replaced by every rotation and every transposition of the pack.
Each deal goes through PBN from all four first seats, tuple-binary, numpy-binary (two dtypes) and JSON card lists."""
from __future__ import annotations

import random as _random
from typing import Dict, List

import numpy as np

import bridge_env.hands as hands_mod
from bridge_env import Hands, Player
from bridge_env.data_handler.json_handler.parser import hands_parser
from bridge_env.data_handler.json_handler.writer import convert_deal

from .. import adapt
_NP_MORE = (np.float32, np.uint8, np.int64, np.float64, np.int8, np.float16, np.uint16)
_NP_ROT = [0]
from ..core import Counter, Result, merge_all, pmap
from ..ref import pbn as RP
from ..ref.protocol import card_name

SEATS = 'NESW'


def fill_deal(seat: str, suit: int, mask: int, rnd: _random.Random) -> Dict[str, frozenset]:
    """A deal in which `seat` holds exactly the cards `mask` of `suit` (and nothing else of that suit)."""
    hold = [suit * 13 + r for r in range(13) if mask >> r & 1]
    rest_suit = [suit * 13 + r for r in range(13) if not mask >> r & 1]
    others = [c for c in range(52) if c // 13 != suit]
    rnd.shuffle(others)
    mine = hold + others[:13 - len(hold)]
    pool = rest_suit + others[13 - len(hold):]
    rnd.shuffle(pool)
    out = {seat: frozenset(mine)}
    for i, s in enumerate(x for x in SEATS if x != seat):
        out[s] = frozenset(pool[i * 13:(i + 1) * 13])
    return out


def check_deal(deal: Dict[str, frozenset], c: Counter, tag: str, partial: bool = False, h: Hands = None, regen: bool = True):
    """All encodings of one deal (dict seat -> frozenset of card ints), round trip + canonical form."""
    rp = {'kind': 'deal', 'deal': {s: sorted(deal[s]) for s in SEATS}}
    h = h if h is not None else adapt.hands_obj(deal)
    want = {s: frozenset(deal[s]) for s in SEATS}
    c.inc('deals')

    full = all(len(v) in (0, 13) for v in deal.values())

    def back(h2, enc):
        c.inc('evals')
        try:
            got = adapt.hands_ints(h2)
        except Exception as e:  # noqa
            got = repr(e)
        if got != want:
            c.violate(f'{enc}:{tag}', f'{enc}: deal {rp["deal"]} decodes to {({s: sorted(v) for s, v in got.items()} if isinstance(got, dict) else got)}', rp)
            return
        if not regen:
            return
        # second generation: the decoded deal is a deal like any other - it must go through every encoder again
        try:
            b2 = {p.name: tuple(v) for p, v in h2.to_binary().items()}
            n2 = {p.name: [int(x) for x in v] for p, v in h2.to_np_binary().items()}
            j2 = convert_deal(h2)
            t2 = h2.to_pbn(Player.S) if full else None
            expb = {s: tuple(1 if i in deal[s] else 0 for i in range(52)) for s in SEATS}
            if b2 != expb or n2 != {s: list(expb[s]) for s in SEATS} or j2 != {s: [card_name(x) for x in sorted(deal[s])] for s in SEATS} \
                    or (full and t2 != RP.deal_text(deal, 'S')):
                c.violate(f're-encode:{enc}:{tag}', f'the deal decoded from {enc} re-encodes differently', rp)
        except Exception as e:  # noqa
            c.violate(f're-encode-raise:{enc.split("-")[0]}:{tag}', f'the deal decoded from {enc} cannot be encoded again: {type(e).__name__}: {e}', rp)
    # PBN from every first seat (only for hands of 0 or 13 cards: the format has no partial hands)
    if all(len(v) in (0, 13) for v in deal.values()):
        for first in SEATS:
            try:
                text = h.to_pbn(adapt.PL[first])
                if text != RP.deal_text(deal, first):
                    c.inc('evals')
                    c.violate(f'pbn-canonical:{tag}', f'to_pbn({first}) = {text!r}, canonical form is {RP.deal_text(deal, first)!r}', rp)
                back(Hands.convert_pbn(text), f'pbn-from-{first}')
            except Exception as e:  # noqa
                c.violate(f'pbn-raise:{tag}', f'PBN from first seat {first}: {type(e).__name__}: {e}', rp)
    # tuple binary
    try:
        b = h.to_binary()
        exp = {s: tuple(1 if i in deal[s] else 0 for i in range(52)) for s in SEATS}
        gotb = {p.name: tuple(v) for p, v in b.items()}
        if gotb != exp or not all(isinstance(v, tuple) for v in b.values()):
            c.violate(f'binary-vector:{tag}', f'to_binary() is not the 52-slot indicator of the hands for deal {rp["deal"]}', rp)
        back(Hands.convert_binary(b), 'binary')
    except Exception as e:  # noqa
        c.violate(f'binary-raise:{tag}', f'tuple binary: {type(e).__name__}: {e}', rp)
    # numpy binary: the default dtype, booleans (the narrowest dtype an indicator fits in), and one more taken in rotation
    _NP_ROT[0] += 1
    for dt in (np.int32, np.bool_, _NP_MORE[_NP_ROT[0] % len(_NP_MORE)]):
        try:
            nb = h.to_np_binary(dt) if dt is not np.int32 else h.to_np_binary()
            for p, v in nb.items():
                if not (isinstance(v, np.ndarray) and v.shape == (52,) and v.dtype == np.dtype(dt) and [int(x) for x in v] == [1 if i in deal[p.name] else 0 for i in range(52)]):
                    c.violate(f'np-vector:{tag}', f'to_np_binary({dt.__name__})[{p.name}] is not the 52-slot indicator array', rp)
                    break
            back(Hands.convert_np_binary(nb), f'np-{dt.__name__}')
        except Exception as e:  # noqa
            c.violate(f'np-raise:{tag}', f'numpy binary {dt.__name__}: {type(e).__name__}: {e}', rp)
    # JSON card lists
    try:
        j = convert_deal(h)
        expj = {s: [card_name(x) for x in sorted(deal[s])] for s in SEATS}
        if j != expj:
            c.inc('evals')
            c.violate(f'json-canonical:{tag}', f'JSON lists {j} are not the ascending card lists {expj}', rp)
        back(hands_parser(j), 'json')
    except Exception as e:  # noqa
        c.violate(f'json-raise:{tag}', f'JSON lists: {type(e).__name__}: {e}', rp)
    # to_dict is the same four sets
    try:
        d = h.to_dict()
        if {p.name: frozenset(adapt.card_int(x) for x in v) for p, v in d.items()} != want:
            c.violate(f'dict:{tag}', 'to_dict() differs from the hands', rp)
    except Exception as e:  # noqa
        c.violate(f'dict-raise:{tag}', f'{type(e).__name__}: {e}', rp)


def holdings_unit(args):
    seat, suit, seed = args
    c = Counter()
    rnd = _random.Random(f'c14-{seed}-{seat}-{suit}')
    for mask in range(1 << 13):
        deal = fill_deal(seat, suit, mask, rnd)
        n = bin(mask).count('1')
        check_deal(deal, c, f'holding-len{min(n, 2) if n < 12 else n}', regen=(mask % 8 == 5))
        c.see('cls', (seat, suit, mask))
    return c


def void_patterns_unit(seed):
    c = Counter()
    rnd = _random.Random(f'c14v-{seed}')
    for seat in SEATS:
        for pat in range(1, 16):           # set bits = suits that are void in this hand (not all four)
            live = [s for s in range(4) if not pat >> s & 1]
            cards = [s * 13 + r for s in live for r in range(13)]
            rnd.shuffle(cards)
            mine = cards[:13] if len(cards) >= 13 else None
            if mine is None:
                continue
            # make sure every live suit is present
            for s in live:
                if not any(x // 13 == s for x in mine):
                    mine[live.index(s)] = s * 13 + 5
            mine = list(dict.fromkeys(mine))
            k = 0
            while len(mine) < 13:
                if cards[k] not in mine:
                    mine.append(cards[k])
                k += 1
            rest = [x for x in range(52) if x not in mine]
            rnd.shuffle(rest)
            deal = {seat: frozenset(mine)}
            for i, s in enumerate(x for x in SEATS if x != seat):
                deal[s] = frozenset(rest[i * 13:(i + 1) * 13])
            check_deal(deal, c, f'void-pattern-{pat:04b}')
            c.see('cls', ('void', seat, pat))
    # 13-0-0-0 hands: each seat holds a complete suit, all 24 assignments
    import itertools
    for perm in itertools.permutations(range(4)):
        deal = {s: frozenset(range(perm[i] * 13, perm[i] * 13 + 13)) for i, s in enumerate(SEATS)}
        check_deal(deal, c, 'one-suiters')
        c.see('cls', ('onesuit', perm))
    # partial deals: every pattern of empty / full hands
    base = fill_deal('N', 0, 0b1010101010101, rnd)
    for pat in range(16):
        deal = {s: (base[s] if pat >> i & 1 else frozenset()) for i, s in enumerate(SEATS)}
        check_deal(deal, c, f'partial-{bin(pat).count("1")}-hands', partial=True)
        c.see('cls', ('partial', pat))
    # encode / mutate / re-encode on one object
    for k in range(8):
        deal = fill_deal(SEATS[k % 4], k % 4, (0x1555 >> (k % 3)) & 0x1fff, rnd)
        h = adapt.hands_obj(deal)
        check_deal(deal, c, 'history-0', h=h)
        # a hand emptied (partial deal)
        h2 = adapt.hands_obj(deal)
        check_deal(deal, c, 'history-0', h=h2)
        seat = SEATS[k % 4]
        setattr(h2, {'N': 'north', 'E': 'east', 'S': 'south', 'W': 'west'}[seat], set())
        d2 = dict(deal)
        d2[seat] = frozenset()
        check_deal(d2, c, 'history-after-emptying-a-hand', h=h2)
        # the same texts decoded twice, the first result played from in between (decoders must hand out fresh sets every time)
        h5 = adapt.hands_obj(deal)
        texts = (h5.to_pbn(Player.E), h5.to_binary(), h5.to_np_binary(), convert_deal(h5))
        firsts = (Hands.convert_pbn(texts[0]), Hands.convert_binary(texts[1]), Hands.convert_np_binary(texts[2]), hands_parser(texts[3]))
        for f in firsts:
            for pl in Player:
                f[pl].clear()
        for enc, again in (('pbn', Hands.convert_pbn(texts[0])), ('binary', Hands.convert_binary(texts[1])), ('np', Hands.convert_np_binary(texts[2])), ('json', hands_parser(texts[3]))):
            c.inc('evals')
            if adapt.hands_ints(again) != {s: frozenset(deal[s]) for s in SEATS}:
                c.violate(f'second-decode:{enc}', f'{enc}: the same encoding decoded a second time (after the first result had been played from) gives other hands', {'kind': 'deal', 'deal': {s: sorted(deal[s]) for s in SEATS}})
        # partial deals: a decoded deal whose unknown hands are then COMPLETED in place (cards added to the empty hands, as a client
        # does when dummy goes down) must not show in the next partial deal that is decoded
        pat = (1, 2, 4, 8, 5, 10, 3, 12)[k]
        part = {s_: (frozenset(deal[s_]) if pat >> i_ & 1 else frozenset()) for i_, s_ in enumerate(SEATS)}
        other = fill_deal(SEATS[(k + 2) % 4], (k + 1) % 4, 0x0aaa & 0x1fff, rnd)
        part2 = {s_: (frozenset(other[s_]) if pat >> i_ & 1 else frozenset()) for i_, s_ in enumerate(SEATS)}
        hp, hp2 = adapt.hands_obj(part), adapt.hands_obj(part2)
        decs = (('pbn', Hands.convert_pbn, hp.to_pbn(adapt.PL[SEATS[k % 4]]), hp2.to_pbn(adapt.PL[SEATS[(k + 1) % 4]])), ('binary', Hands.convert_binary, hp.to_binary(), hp2.to_binary()),
                ('np', Hands.convert_np_binary, hp.to_np_binary(), hp2.to_np_binary()), ('json', hands_parser, convert_deal(hp), convert_deal(hp2)))
        for enc, dec, t1, t2 in decs:
            try:
                first = dec(t1)
                for i_, s_ in enumerate(SEATS):
                    if not pat >> i_ & 1:
                        first[adapt.PL[s_]].update(adapt.CARDS[x] for x in deal[s_])
                for label, txt, want in (('another partial deal', t2, part2), ('the same partial deal', t1, part)):
                    c.inc('evals')
                    got = adapt.hands_ints(dec(txt))
                    if got != {s_: frozenset(want[s_]) for s_ in SEATS}:
                        c.violate(f'decode-after-completing:{enc}', f'{enc}: after the unknown hands of a decoded partial deal were filled in place, {label} decodes to hands of sizes '
                                                                    f'{ {s_: len(got[s_]) for s_ in SEATS} }, expected { {s_: len(want[s_]) for s_ in SEATS} }',
                                  {'kind': 'deal', 'deal': {s_: sorted(part[s_]) for s_ in SEATS}})
            except Exception as e:  # noqa
                c.violate(f'decode-after-completing-raise:{enc}', f'{enc}: {type(e).__name__}: {e}', {'kind': 'deal', 'deal': {s_: sorted(part[s_]) for s_ in SEATS}})
        # the same Hands object dealt again in place (13 new cards per seat): encodings must follow
        h6 = adapt.hands_obj(deal)
        check_deal(deal, c, 'history-0', h=h6)
        deal2 = fill_deal(SEATS[(k + 1) % 4], (k + 2) % 4, 0x0f0f & 0x1fff, rnd)
        for s_, attr in zip(SEATS, ('north', 'east', 'south', 'west')):
            setattr(h6, attr, {adapt.CARDS[x] for x in deal2[s_]})
        check_deal(deal2, c, 'history-after-dealing-again-in-place', h=h6)
        # cards removed in place, as the play engine does
        d3 = dict(deal)
        for s in SEATS:
            card = min(deal[s])
            h[adapt.PL[s]].remove(adapt.CARDS[card])
            d3[s] = frozenset(deal[s] - {card})
        check_deal(d3, c, 'history-after-a-trick', h=h)
        c.see('cls', ('history', k))
    return c


class _Shuffler:
    """Stands in for the `random` module inside bridge_env.hands: shuffle applies a prescribed permutation."""

    def __init__(self):
        self.perm = None

    def shuffle(self, x):
        y = [x[i] for i in self.perm]
        x[:] = y

    def __getattr__(self, n):
        raise AttributeError(f'random.{n} used by the dealer')


def dealer_unit(seed):
    c = Counter()
    sh = _Shuffler()
    saved = hands_mod.random
    hands_mod.random = sh
    try:
        ident = list(range(52))
        perms = [ident[k:] + ident[:k] for k in range(52)]
        for i in range(52):
            for j in range(i + 1, 52):
                p = list(ident)
                p[i], p[j] = p[j], p[i]
                perms.append(p)
        ref_map = None
        sh.perm = ident
        base = Hands.generate_random_hands()
        base_i = adapt.hands_ints(base)
        pos_of = {}       # card -> (seat) under the identity shuffle
        for s in SEATS:
            for card in base_i[s]:
                pos_of[card] = s
        for p in perms:
            sh.perm = p
            c.inc('evals')
            c.inc('dealer_runs')
            try:
                h = Hands.generate_random_hands()
                hi = adapt.hands_ints(h)
            except Exception as e:  # noqa
                c.violate('dealer:raise', f'generate_random_hands raised {type(e).__name__}: {e}', {'kind': 'dealer', 'perm': p})
                continue
            allc = [x for s in SEATS for x in hi[s]]
            if [len(hi[s]) for s in SEATS] != [13] * 4 or sorted(allc) != list(range(52)):
                c.violate('dealer:partition', f'dealt hands of sizes {[len(hi[s]) for s in SEATS]} covering {len(set(allc))} distinct cards', {'kind': 'dealer', 'perm': p})
            c.see('cls', ('perm', tuple(p[:3]), tuple(p[-2:])))
        # the four hands really are the four quarters of the shuffled pack: a rotation by 13 rotates the seats
        sh.perm = ident[13:] + ident[:13]
        r = adapt.hands_ints(Hands.generate_random_hands())
        if [r[s] for s in 'NESW'] != [base_i[s] for s in 'ESWN']:
            c.violate('dealer:quarters', 'rotating the pack by 13 cards does not rotate the hands by one seat', {'kind': 'dealer', 'perm': sh.perm})
    finally:
        hands_mod.random = saved
    return c


def unit(args):
    kind = args[0]
    if kind == 'hold':
        return holdings_unit(args[1:])
    if kind == 'void':
        return void_patterns_unit(args[1])
    return dealer_unit(args[1])


def run(tier, seed, workers):
    seats = SEATS if tier == 'thorough' else SEATS[seed % 4] + SEATS[(seed + 2) % 4]
    us = [('hold', seat, suit, seed) for seat in seats for suit in range(4)] + [('void', seed), ('dealer', seed)]
    tot = merge_all(pmap(unit, us, workers))
    n = tot.get('evals')
    cov = {
        'states': tot.get('deals'), 'transitions': n, 'traces_validated_against_impl': n, 'evaluations': n,
        'distinct_nontrivial': tot.distinct('cls'), 'deals': tot.get('deals'), 'dealer_runs': tot.get('dealer_runs'),
        'rule': f'covers, each enumerated completely: (i) seats {seats} x 4 suits x all 8192 holdings of that suit in that hand (rest of the deal filled deterministically from VERIF_SEED); '
                '(ii) all 15 void patterns per seat and all 24 assignments of complete suits to seats; (iii) all 16 empty/full patterns of partial deals; (iv) encode, mutate (empty a hand / '
                'remove one card per seat), re-encode on the same Hands object; (v) generate_random_hands with random.shuffle replaced by each of the 52 rotations and 1326 transpositions. '
                'Every deal: to_pbn from each of the 4 first seats == canonical text (S.H.D.C, ranks high to low, void = empty field, empty hand = "-") and convert_pbn back; to_binary == indicator '
                'tuples and convert_binary back; to_np_binary (int32 default, bool, and float32 / uint8 / int64 / float64 / int8 / float16 / uint16 in rotation) == indicator arrays and convert_np_binary back; convert_deal == ascending card lists and hands_parser back',
        'samples': [{'seat': 'N', 'suit': 'S', 'holding': 'AQT8642 (mask 0b1010101010101)'}, {'void pattern': 'E void in S and D'}, {'partial': 'N and W empty'},
                    {'dealer': 'pack with cards 3 and 40 swapped'}],
        'exhaustive': False,
        'explanation': 'each cover is enumerated completely; the space of all deals is not (assumption: the codecs treat seats and suits independently, which cover (i) x 4 first seats would expose)',
    }
    return Result(cov, tot.violations, ['codecs treat seats and suits independently (read from the code)', 'PBN is defined for hands of 13 or 0 cards only'])


def replay(d):
    c = Counter()
    if d.get('kind') == 'deal':
        check_deal({s: frozenset(v) for s, v in d['deal'].items()}, c, 'replay')
        return bool(c.violations), '\n'.join(v.message for v in c.violations) or 'all encodings round-trip'
    if d.get('kind') == 'dealer':
        sh = _Shuffler()
        sh.perm = d['perm']
        saved = hands_mod.random
        hands_mod.random = sh
        try:
            hi = adapt.hands_ints(Hands.generate_random_hands())
        finally:
            hands_mod.random = saved
        allc = sorted(x for s in SEATS for x in hi[s])
        bad = allc != list(range(52)) or any(len(hi[s]) != 13 for s in SEATS)
        return bad, f'hands sizes {[len(hi[s]) for s in SEATS]}'
    return False, 'unknown'


from ..conc import driver as _conc  # noqa: E402
_conc.wrap(globals(), 'C14')
