"""C03 - final contract = last bid + doubling state + vulnerability + true declarer; none before the end."""
from . import C01
from . import auction as A

TAG = 'C03'


def units(tier, seed):
    cells = C01.CELLS_ALL
    if tier == 'quick':
        k = seed % 5
        cells = [cells[k], cells[5 + (k + 2) % 5]]
    us = []
    for i, cell in enumerate(cells):
        for j, dealer in enumerate('NESW'):
            us.append(('graph', dealer, A.adapt.VULS[(seed + i + j) % 4], cell, 0))
    for j, dealer in enumerate('NESW'):
        us.append(('unmerged', dealer, A.adapt.VULS[(seed + j) % 4], None, 6 if tier == 'quick' else 7))
        for vul in A.adapt.VULS:
            us.append(('walks', dealer, vul, None, 0))
    return us


def run(tier, seed, workers):
    return C01.run_tagged(TAG, tier, seed, workers, units(tier, seed),
                          ' C03: one cell (side, denomination) of the first-to-name table is added to the key per unit; the whole '
                          'table and contract() are compared on every transition.')


replay = A.replay
