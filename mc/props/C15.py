"""C15 - card / call / contract / seat / vulnerability notations are exact inverses (complete finite domains)."""
from bridge_env import Bid, Card, Contract, Pair, Player, Suit, Vul

from .. import adapt
from ..core import Counter, Result
from ..ref.auction import BIDS, CALLS, DENOMS

RANKCH = '23456789TJQKA'


def _fresh(x):
    """A new str object with the same text (text that comes from a file or a socket is never the interned literal)."""
    return ''.join(list(x)) if isinstance(x, str) and x else x


SHAPES = {'calls_by_keyword': 0}


def _param_names(f, n):
    """Names of the first n parameters of a library converter if they may be passed by keyword, else None."""
    import inspect
    if getattr(f, '__module__', None) is None or not str(getattr(f, '__module__', '')).startswith('bridge_env'):
        return None
    try:
        ps = list(inspect.signature(f).parameters.values())
    except (TypeError, ValueError):
        return None
    if len(ps) < n or any(q.kind is not q.POSITIONAL_OR_KEYWORD for q in ps[:n]):
        return None
    return [q.name for q in ps[:n]]


def _try(f, *a):
    """f(*a) - and, for a library converter with named parameters, the same call with the arguments passed by keyword (all of them, and
    all but the first): a caller that writes `str_to_contract(text, vul=v, declarer=d)` asks the same question.  A disagreement comes
    back as a text that no expectation matches."""
    a = tuple(_fresh(x) for x in a)
    try:
        r = f(*a)
    except Exception as e:  # noqa
        return f'raised {type(e).__name__}: {e}'
    names = _param_names(f, len(a)) if a else None
    if names:
        for k in sorted({0, 1} if len(a) > 1 else {0}):
            SHAPES['calls_by_keyword'] += 1
            try:
                r2 = f(*a[:k], **dict(zip(names[k:], (_fresh(x) for x in a[k:]))))
            except Exception as e:  # noqa
                r2 = f'raised {type(e).__name__}: {e}'
            if not (r2 == r and type(r2) is type(r)):
                return f'call shapes disagree: {getattr(f, "__qualname__", f)}{a!r} -> {r!r}, with {names[k:]} passed by keyword -> {r2!r}'
    return r


def run(tier, seed, workers):
    c = Counter()

    def expect(key, got, exp, what):
        c.inc('evals')
        if not (got == exp and type(got) is type(exp)) and not (got is exp):
            c.violate(key, f'{what}: got {got!r}, expected {exp!r}', {'key': key})

    # ---- cards -----------------------------------------------------------------------------------
    texts = {}
    for i in range(52):
        card = _try(Card.int_to_card, i)
        s, r = i // 13, i % 13
        expect(f'card:int_to_card:{i}', (getattr(card, 'rank', None), getattr(getattr(card, 'suit', None), 'name', None)),
               (r + 2, 'CDHS'[s]), f'Card.int_to_card({i}) rank/suit')
        if not isinstance(card, Card):
            continue
        expect(f'card:int:{i}', _try(int, card), i, f'int(Card.int_to_card({i}))')
        t = _try(str, card)
        expect(f'card:str:{i}', t, 'CDHS'[s] + RANKCH[r], f'str of card {i}')
        expect(f'card:str_to_card:{i}', _try(Card.str_to_card, 'CDHS'[s] + RANKCH[r]), card, f'str_to_card of card {i}')
        expect(f'card:rank_int_to_str:{i}', _try(Card.rank_int_to_str, r + 2), RANKCH[r], f'rank_int_to_str({r + 2})')
        expect(f'card:rank_str_to_int:{i}', _try(Card.rank_str_to_int, RANKCH[r]), r + 2, f'rank_str_to_int({RANKCH[r]})')
        expect(f'card:ctor:{i}', _try(Card, r + 2, Suit['CDHS'[s]]), card, 'Card(rank, suit)')
        if t in texts:
            c.violate(f'card:injective:{i}', f'cards {texts[t]} and {i} share the text {t!r}', {})
        texts[t] = i
        c.see('vals', ('card', i))
    cards = [Card.int_to_card(i) for i in range(52)]
    for i, a in enumerate(cards):
        for j, b in enumerate(cards):
            c.inc('pairs')
            got = (_try(lambda: a < b), _try(lambda: a <= b), _try(lambda: a > b), _try(lambda: a >= b), a == b,
                   hash(a) == hash(b) if i == j else True)
            exp = (i < j, i <= j, i > j, i >= j, i == j, True)
            if got != exp:
                c.violate(f'card:order:{i}:{j}', f'order of cards {a} (index {i}) and {b} (index {j}): (<,<=,>,>=,==,hash) = {got}, '
                                                  f'index order says {exp}', {'i': i, 'j': j})
    srt = sorted(cards[::-1])
    expect('card:sorted', [int(x) for x in srt], list(range(52)), 'sorted(all cards) by index')

    # ---- cards however they were made ------------------------------------------------------------
    # The same 52 values reached by every way the value object offers of making one: from a card that has already been used (its
    # index taken, compared, sorted) by dataclasses.replace / copy / deepcopy / pickle, and by the text and index converters.  What a
    # card remembers about itself must not travel to a card derived from it.
    import copy as _copy
    import dataclasses as _dc
    import pickle as _pickle
    used = [Card.int_to_card(i) for i in range(52)]
    for u in used:
        int(u), str(u), hash(u)
    sorted(used[::-1])
    routes = {'copy': lambda i: _copy.copy(used[i]), 'deepcopy': lambda i: _copy.deepcopy(used[i]),
              'pickle': lambda i: _pickle.loads(_pickle.dumps(used[i])),
              'str_to_card(str())': lambda i: Card.str_to_card(str(used[i])), 'int_to_card(int())': lambda i: Card.int_to_card(int(used[i]))}
    if _dc.is_dataclass(Card) and {f.name for f in _dc.fields(Card) if f.init} >= {'rank', 'suit'}:
        routes['replace-rank'] = lambda i: _dc.replace(used[(i // 13) * 13 + (i + 1) % 13], rank=i % 13 + 2)
        routes['replace-suit'] = lambda i: _dc.replace(used[(i + 13) % 52], suit=Suit['CDHS'[i // 13]])
        routes['replace-both'] = lambda i: _dc.replace(used[51 - i], rank=i % 13 + 2, suit=Suit['CDHS'[i // 13]])
    for rname, mk in routes.items():
        made = [_try(mk, i) for i in range(52)]
        for i, m in enumerate(made):
            if not isinstance(m, Card):
                c.violate(f'card:route:{rname}:{i}', f'card {i} made by {rname}: {m}', {'key': f'card:route:{rname}:{i}'})
                continue
            expect(f'card:route:{rname}:eq:{i}', (m == cards[i], hash(m) == hash(cards[i])), (True, True), f'card {i} made by {rname} equals the card')
            expect(f'card:route:{rname}:int:{i}', _try(int, m), i, f'int of card {i} made by {rname}')
            expect(f'card:route:{rname}:str:{i}', _try(str, m), 'CDHS'[i // 13] + RANKCH[i % 13], f'str of card {i} made by {rname}')
            expect(f'card:route:{rname}:back:{i}', _try(lambda: Card.int_to_card(int(m))), cards[i], f'int_to_card(int()) of card {i} made by {rname}')
            for j in (0, max(i - 1, 0), i, min(i + 1, 51), 51, (i + 13) % 52):
                b = cards[j]
                c.inc('pairs')
                got = (_try(lambda: m < b), _try(lambda: m <= b), _try(lambda: m > b), _try(lambda: m >= b), _try(lambda: b < m), m == b)
                exp = (i < j, i <= j, i > j, i >= j, j < i, i == j)
                if got != exp:
                    c.violate(f'card:route:{rname}:order:{i}:{j}', f'card {i} made by {rname} against card {j}: (<,<=,>,>=,reversed <,==) = {got}, index order says {exp}',
                              {'key': f'card:route:{rname}:order:{i}:{j}'})
        if all(isinstance(m, Card) for m in made):
            expect(f'card:route:{rname}:sorted', [int(x) for x in sorted(made[::-1])], list(range(52)), f'sorted(all cards made by {rname})')
        c.inc('card_construction_routes')

    # ---- calls -----------------------------------------------------------------------------------
    texts = {}
    for i, name in enumerate(CALLS):
        b = _try(Bid.int_to_bid, i)
        if not isinstance(b, Bid):
            c.violate(f'call:int_to_bid:{i}', f'Bid.int_to_bid({i}) -> {b}', {})
            continue
        expect(f'call:idx:{i}', b.idx, i, f'Bid.int_to_bid({i}).idx')
        expect(f'call:str:{i}', _try(str, b), name, f'str of call {i}')
        expect(f'call:str_to_bid:{i}', _try(Bid.str_to_bid, name), b, f'Bid.str_to_bid({name!r})')
        if i < 35:
            lv, den = i // 5 + 1, DENOMS[i % 5]
            expect(f'call:level:{i}', b.level, lv, f'level of {name}')
            expect(f'call:suit:{i}', getattr(b.suit, 'name', None), den, f'denomination of {name}')
            expect(f'call:level_suit_to_bid:{i}', _try(Bid.level_suit_to_bid, lv, Suit[den]), b,
                   f'Bid.level_suit_to_bid({lv},{den})')
        else:
            expect(f'call:level:{i}', b.level, None, f'level of {name}')
            expect(f'call:suit:{i}', b.suit, None, f'denomination of {name}')
        t = str(b)
        if t in texts:
            c.violate(f'call:injective:{i}', f'calls {texts[t]} and {i} share the text {t!r}', {})
        texts[t] = i
        c.see('vals', ('call', i))
    expect('call:count', len(list(Bid)), 38, 'number of calls')
    for i in range(35):
        for j in range(35):
            c.inc('pairs')
            a, b = Bid.int_to_bid(i), Bid.int_to_bid(j)
            if ((a.level, a.suit.value) < (b.level, b.suit.value)) != (i < j):
                c.violate(f'call:rank:{i}:{j}', f'(level, denomination) order of {a} and {b} disagrees with their indices', {})

    # ---- denominations, seats, sides --------------------------------------------------------------
    for k, den in enumerate(DENOMS):
        s = _try(lambda: Suit[den])
        expect(f'suit:str:{den}', _try(str, s), den, f'str(Suit[{den}])')
        expect(f'suit:value:{den}', getattr(s, 'value', None), k + 1, f'Suit[{den}].value')
        c.see('vals', ('suit', den))
    formal = {'N': 'North', 'E': 'East', 'S': 'South', 'W': 'West'}
    seen = {}
    for k, s in enumerate('NESW'):
        p = _try(lambda: Player[s])
        expect(f'seat:str:{s}', _try(str, p), s, f'str(Player.{s})')
        fn = _try(lambda: p.formal_name)
        expect(f'seat:formal:{s}', fn, formal[s], f'Player.{s}.formal_name')
        expect(f'seat:convert:{s}', _try(Player.convert_formal_name, formal[s]), p, f'convert_formal_name({formal[s]})')
        expect(f'seat:value:{s}', getattr(p, 'value', None), k + 1, f'Player.{s}.value')
        if fn in seen:
            c.violate(f'seat:injective:{s}', f'seats {seen[fn]} and {s} share formal name {fn}', {})
        seen[fn] = s
        # geometry used by every other module
        expect(f'seat:left:{s}', p.left.name, 'NESW'[(k + 1) % 4], f'{s}.left')
        expect(f'seat:next:{s}', p.next_player.name, 'NESW'[(k + 1) % 4], f'{s}.next_player')
        expect(f'seat:partner:{s}', p.partner.name, 'NESW'[(k + 2) % 4], f'{s}.partner')
        expect(f'seat:right:{s}', p.right.name, 'NESW'[(k + 3) % 4], f'{s}.right')
        expect(f'seat:pair:{s}', p.pair.name, 'NS' if s in 'NS' else 'EW', f'{s}.pair')
        expect(f'seat:opp:{s}', p.opponent_pair.name, 'EW' if s in 'NS' else 'NS', f'{s}.opponent_pair')
        for t in 'NESW':
            expect(f'seat:is_partner:{s}:{t}', p.is_partner(Player[t]), (s in 'NS') == (t in 'NS'), f'{s}.is_partner({t})')
        c.see('vals', ('seat', s))
    for nm in ('NS', 'EW'):
        expect(f'pair:str:{nm}', _try(str, Pair[nm]), nm, f'str(Pair.{nm})')
        expect(f'pair:opp:{nm}', Pair[nm].opponent_pair.name, 'EW' if nm == 'NS' else 'NS', f'Pair.{nm}.opponent_pair')

    # ---- vulnerabilities -------------------------------------------------------------------------
    vt, pt = {}, {}
    for name in adapt.VULS:
        v = adapt.VUL[name]
        expect(f'vul:str:{name}', _try(str, v), name, f'str(Vul) of {name}')
        expect(f'vul:pbn:{name}', _try(v.pbn_format), {'None': 'None', 'NS': 'NS', 'EW': 'EW', 'Both': 'All'}[name],
               f'pbn_format of {name}')
        expect(f'vul:parse_str:{name}', _try(Vul.str_to_vul, name), v, f'str_to_vul({name!r})')
        expect(f'vul:parse_pbn:{name}', _try(Vul.str_to_vul, _try(v.pbn_format)), v, f'str_to_vul(pbn_format) of {name}')
        for t, d in ((str(v), vt), (v.pbn_format(), pt)):
            if t in d:
                c.violate(f'vul:injective:{name}', f'vulnerabilities {d[t]} and {name} share the text {t!r}', {})
            d[t] = name
        for s in 'NESW':
            exp = name == 'Both' or (name != 'None' and s in name)
            expect(f'vul:is_vul:{name}:{s}', Player[s].is_vul(v), exp, f'Player.{s}.is_vul({name})')
        for nm in ('NS', 'EW'):
            expect(f'vul:pair_is_vul:{name}:{nm}', Pair[nm].is_vul(v), name == 'Both' or name == nm, f'Pair.{nm}.is_vul({name})')
        c.see('vals', ('vul', name))
    for sp, exp in (('Love', Vul.NONE), ('-', Vul.NONE), ('None', Vul.NONE), ('All', Vul.BOTH), ('Both', Vul.BOTH),
                    ('NS', Vul.NS), ('EW', Vul.EW)):
        expect(f'vul:spelling:{sp}', _try(Vul.str_to_vul, sp), exp, f'str_to_vul({sp!r})')

    # ---- contracts -------------------------------------------------------------------------------
    texts = {}
    for bid in BIDS:
        for status, flagsets in ((0, [(False, False)]), (1, [(True, False)]), (2, [(True, True), (False, True)])):
            for (x, xx) in flagsets:
                for vul in adapt.VULS:
                    for decl in (None,) + tuple('NESW'):
                        con = Contract(final_bid=adapt.call_obj(bid), x=x, xx=xx, vul=adapt.VUL[vul],
                                       declarer=Player[decl] if decl else None)
                        t = _try(str, con)
                        exp_t = bid + ('', 'X', 'XX')[status]
                        key = f'contract:{bid}:{int(x)}{int(xx)}:{vul}:{decl}'
                        expect(key + ':str', t, exp_t, f'str(Contract {bid} x={x} xx={xx})')
                        back = _try(Contract.str_to_contract, exp_t, adapt.VUL[vul], Player[decl] if decl else None)
                        c.inc('evals')
                        c.see('vals', ('contract', bid, status, vul, decl))
                        if not isinstance(back, Contract):
                            c.violate(key + ':parse', f'str_to_contract({exp_t!r}) -> {back}', {})
                            continue
                        got = (back.level, getattr(back.trump, 'name', None), adapt.doubling_status(back), back.vul,
                               back.declarer, back.final_bid, back.is_passed_out())
                        exp = (int(bid[0]), bid[1:], status, adapt.VUL[vul], Player[decl] if decl else None,
                               adapt.call_obj(bid), False)
                        if got != exp:
                            c.violate(key + ':roundtrip', f'contract text {exp_t!r} parsed back as (level, denom, doubling status, vul, '
                                                          f'declarer, bid, passed_out) = {got}, written {exp}', {})
                        if (x, xx) != (False, True):
                            texts.setdefault(t, set()).add((bid, status))
                        expect(key + ':necessary', con.necessary_tricks(), int(bid[0]) + 6, 'necessary_tricks')
    for t, vs in texts.items():
        if len(vs) > 1:
            c.violate(f'contract:injective:{t}', f'contracts {sorted(vs)} share the text {t!r}', {})
    for fb in (None, Bid.Pass):
        for vul in adapt.VULS:
            con = Contract(final_bid=fb, vul=adapt.VUL[vul])
            t = _try(str, con)
            key = f'contract:passedout:{fb}:{vul}'
            expect(key + ':str', t, 'Passed_out', 'str(passed-out contract)')
            back = _try(Contract.str_to_contract, 'Passed_out', adapt.VUL[vul], None)
            c.inc('evals')
            c.see('vals', ('contract', 'PO', 0, vul, None))
            if not isinstance(back, Contract) or not back.is_passed_out() or back.vul is not adapt.VUL[vul] \
                    or back.declarer is not None or back.level is not None or back.trump is not None \
                    or adapt.doubling_status(back) != 0:
                c.violate(key + ':roundtrip', f'"Passed_out" parsed back as {back!r}', {})
    if 'Passed_out' in texts:
        c.violate('contract:injective:Passed_out', 'a real contract prints as Passed_out', {})

    n = c.get('evals') + c.get('pairs')
    c.inc('calls_repeated_with_keyword_arguments', SHAPES['calls_by_keyword'])
    SHAPES['calls_by_keyword'] = 0
    cov = {'states': c.distinct('vals'), 'transitions': n, 'traces_validated_against_impl': n,
           'evaluations': n, 'distinct_nontrivial': c.distinct('vals'), 'ordered_pairs_checked': c.get('pairs'),
           'rule': 'complete domains: 52 cards (index, text, rank letters, constructor; all 52x52 ordered pairs for <,<=,>,>=,==), '
                   '38 calls (index, text, level+denomination; 35x35 rank order), 5 denominations, 4 seats (name, formal name, '
                   'geometry), 2 sides, 4 vulnerabilities (str, PBN, alias spellings, per-seat is_vul), '
                   '(35 bids x {undoubled, doubled, redoubled[2 flag encodings]} + 2 passed-out encodings) x 4 vul x 5 declarers; '
                   'distinct = distinct values converted; every library converter with named parameters is also called with its arguments passed by keyword',
           'samples': [{'card': 'int 23 <-> "DQ" <-> Card(12, D)'}, {'call': 'idx 14 <-> "3NT" <-> (3, NT)'},
                       {'contract': '"4SXX" vul=NS declarer=W -> level 4, S, redoubled'}],
           'calls_repeated_with_keyword_arguments': c.get('calls_repeated_with_keyword_arguments'),
           'exhaustive': True}
    return Result(cov, c.violations, ['doubling compared as status (redoubled / doubled / undoubled), not raw x/xx flags'])


def replay(d):
    res = run('quick', 0, 1)
    hit = [v for v in res.violations if v.key == d.get('key')]
    return bool(hit), hit[0].message if hit else 'not reproduced'


def exercise_library():
    """Uses the rest of the library the way an application does (deals, an auction, a played board, file round trips, a few
    messages) so that anything those calls leave behind in shared state is in place."""
    import io
    import datetime
    from bridge_env import BiddingPhase, Hands, PlayingPhaseWithHands
    from bridge_env.data_handler.json_handler.parser import JsonParser
    from bridge_env.data_handler.json_handler.writer import JsonBoardSettingWriter
    from bridge_env.data_handler.pbn_handler.parser import PbnParser
    from bridge_env.data_handler.pbn_handler.writer import PbnWriter, Scoring
    from bridge_env.score import calc_score, score_to_imp
    for _ in range(3):
        h = Hands.generate_random_hands()
        Hands.convert_pbn(h.to_pbn(Player.E))
        Hands.convert_binary(h.to_binary())
        Hands.convert_np_binary(h.to_np_binary())
        bp = BiddingPhase(dealer=Player.S, vul=Vul.BOTH)
        for b in (Bid.H1, Bid.X, Bid.XX, Bid.S1, Bid.Pass, Bid.Pass, Bid.Pass):
            bp.take_bid(b)
        con = bp.contract()
        pp = PlayingPhaseWithHands(con, h)
        while not pp.has_done():
            pl = pp.active_player
            pp.play_card_by_player(sorted(pp.current_available_cards_in_hand(pl))[0], pl)
        calc_score(con, pp.taken_tricks[con.declarer.pair])
        score_to_imp(420, -50)
        buf = io.StringIO()
        with JsonBoardSettingWriter(buf) as w:
            w.write('1', Player.N, Hands.generate_random_hands(), Vul.EW)
        JsonParser().parse_board_settings(io.StringIO(buf.getvalue()))
        buf = io.StringIO()
        PbnWriter(buf).write_board_result('e', 's', datetime.date(2020, 1, 1), 1, 'w', 'n', 'e', 's', Player.W, Hands.generate_random_hands(), Scoring.IMP, con, 7)
        PbnParser().parse_board_settings(io.StringIO(buf.getvalue()))


_first_run = run


def run(tier, seed, workers):  # noqa: F811
    """The complete enumeration twice: in the state in which the interpreter starts, and again after the rest of the library has been
    used (a conversion table that another call has disturbed, a registration that only some import performs)."""
    res = _first_run(tier, seed, workers)
    try:
        exercise_library()
    except Exception as e:  # noqa
        from ..core import Violation
        res.violations = list(res.violations) + [Violation('exercise:raise', f'ordinary use of the library raised {type(e).__name__}: {e}', {'kind': 'exercise'})]
        return res
    res2 = _first_run(tier, seed, workers)
    seen = {v.key for v in res.violations}
    for v in res2.violations:
        if v.key not in seen:
            v.key = 'after-use:' + v.key
            v.message = 'after the library had been used (random deals, an auction, a played board, file round trips): ' + v.message
            v.replay = dict(v.replay, after_use=True)
            res.violations.append(v)
    for k in ('evaluations', 'transitions', 'traces_validated_against_impl'):
        if isinstance(res.coverage.get(k), int) and isinstance(res2.coverage.get(k), int):
            res.coverage[k] += res2.coverage[k]
    res.coverage['passes'] = 'pristine interpreter state, then again after ordinary use of the rest of the library'
    res.coverage['rule'] = res.coverage.get('rule', '') + ' | the whole enumeration is run twice: in the state the interpreter starts in, and after random deals, an auction, a played board, JSON and PBN round trips'
    return res


_seq_replay = replay


def replay(d):  # noqa: F811
    if d.get('after_use'):
        exercise_library()
    return _seq_replay(d)


from ..conc import driver as _conc  # noqa: E402
_conc.wrap(globals(), 'C15')
