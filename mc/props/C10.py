"""C10 - each seat is told exactly what the protocol entitles it to, and nothing else."""
from . import C08, sessions

TAG = 'C10'


def run(tier, seed, workers):
    return C08.run_tag(TAG, tier, seed, workers)


replay = sessions.replay
