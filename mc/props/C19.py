"""C19 - protocol messages mean the same to both ends; CR LF framing delivers every message intact under every chunking
and terminates with an error at end of stream.

Part 1 (builder/parser pairs, complete finite domains): calls, cards, board headers, lead prompts, team names,
connection lines, hands (own and dummy's) - the text built by one end is parsed by the other end's parser.
Part 2 (framing, explicit enumeration of transports): message sequences x every chunking of the byte stream x an end of
stream at every byte position, against the real MessageInterface.receive_message over a byte-level fake connection.
A spin is decided exactly: N consecutive empty reads after end-of-stream with the receiver still calling recv is a
repeated state of a deterministic loop."""
from __future__ import annotations

import itertools
from typing import List, Optional

from bridge_env import Bid, Card, Player, Suit, Vul
from bridge_env.network_bridge.client import Client
from bridge_env.network_bridge.server import PlayerThread, Server
from bridge_env.network_bridge.socket_interface import MessageInterface

from .. import adapt
from ..core import Counter, Result, merge_all, pmap
from ..ref import protocol as P
from ..ref.auction import CALLS

SEATS = 'NESW'
CASES = ('asis', 'lower', 'upper')
ALERTS = ('', ' Alert.', '  alert. ', ' ALERT.', ' Alert. ')
ALPHABET = "a1 .,-_/()'+#:"          # the admission alphabet of the quantifier (letters, digits, space and . , - _ / ( ) ' + # :)
VULS = ['None', 'NS', 'EW', 'Both']


def case_of(s: str, case: str) -> str:
    return s if case == 'asis' else (s.lower() if case == 'lower' else s.upper())


def _try(f, *a):
    try:
        return f(*a)
    except Exception as e:  # noqa
        return f'raised {type(e).__name__}: {e}'


# ------------------------------------------------------------------------------------------------------------------
# part 1: builder / parser pairs

def server_reads_call(msg: str, seat: Player):
    """What Server.bidding_phase does with a call message before handing it to the auction."""
    m = msg
    if 'alert' in m.lower():
        m = Server.remove_alert_word(m)
    return m, MessageInterface.parse_bid(m, seat.formal_name)


def check_calls(c: Counter):
    for idx, name in enumerate(CALLS):
        bid = adapt.call_obj(name)
        for s in SEATS:
            pl = adapt.PL[s]
            built = Client.create_bid_message(bid, pl.formal_name)
            for case in CASES:
                for al in ALERTS:
                    c.inc('evals')
                    c.inc('calls')
                    msg = case_of(built, case) + al
                    rp = {'kind': 'call', 'call': name, 'seat': s, 'msg': msg}
                    try:
                        relay, got = server_reads_call(msg, pl)
                    except Exception as e:  # noqa
                        c.violate(f'call:server:{_cls(name)}:{case}:{al.strip() or "noalert"}',
                                  f'server cannot read the call message {msg!r}: {type(e).__name__}: {e}', rp)
                        continue
                    if got is not bid:
                        c.violate(f'call:server:{_cls(name)}:{case}:{al.strip() or "noalert"}',
                                  f'server reads {msg!r} as {got}, the client meant {name}', rp)
                    # the relayed line (alert removed) as understood by another client's parser
                    got2 = _try(MessageInterface.parse_bid, relay, pl.formal_name)
                    if got2 is not bid:
                        c.violate(f'call:relay:{_cls(name)}:{case}:{al.strip() or "noalert"}',
                                  f'the relayed line {relay!r} is read by a client as {got2}, the caller meant {name}', rp)
                    c.see('cls', ('call', name, case, al))
    c.sample({'call message': 'north bids 1nt  alert. ', 'server reads': '1NT', 'relay': 'north bids 1nt'})


def _cls(name):
    return name if name in ('Pass', 'X', 'XX') else ('NT' if name.endswith('NT') else 'suit')


def check_cards(c: Counter):
    for i in range(52):
        card = adapt.CARDS[i]
        for s in SEATS:
            pl = adapt.PL[s]
            forms = {'rank_suit': Client.card_str(card), 'suit_rank': str(card)}
            for nt, txt in forms.items():
                for case in CASES:
                    c.inc('evals')
                    c.inc('cards')
                    msg = case_of(f'{pl.formal_name} plays {txt}', case)
                    got = _try(MessageInterface.parse_card, msg, pl)
                    if got != card:
                        c.violate(f'card:{nt}:{case}:{"honour" if i % 13 >= 8 else "spot"}',
                                  f'{msg!r} is read as {got}, the sender meant {card}', {'kind': 'card', 'card': i, 'seat': s, 'msg': msg})
                    c.see('cls', ('card', i, nt, case))
    c.sample({'card message': 'WEST PLAYS TS', 'parsed': 'ST'})


def check_headers(c: Counter, numbers: List[int]):
    for n in numbers:
        for d in SEATS:
            for v in VULS:
                c.inc('evals')
                c.inc('headers')
                msg = (f'Board number {n}. Dealer {adapt.PL[d].formal_name}. {Server.convert_vul(adapt.VUL[v])} vulnerable.')
                got = _try(Client.parse_board, msg)
                if got != (n, adapt.PL[d], adapt.VUL[v]):
                    c.violate(f'header:{d}:{v}:{len(str(n))}', f'{msg!r} is read by the client as {got}', {'kind': 'header', 'msg': msg})
                # the reference classifier (used by the session checks) must agree as well
                if P.classify(msg) != ('board', n, d, v):
                    c.violate('INTERNAL:classify', f'reference classifier disagrees on {msg!r}', {})
    for s in SEATS:
        for dm in SEATS:
            c.inc('evals')
            msg = f'{adapt.PL[s].formal_name} to lead'
            got = _try(Client.parse_leader_message, msg, adapt.PL[dm])
            if got is not adapt.PL[s]:
                c.violate(f'lead:{s}', f'{msg!r} is read as {got}', {'kind': 'lead', 'msg': msg, 'dummy': dm})
    for dm in SEATS:
        c.inc('evals')
        got = _try(Client.parse_leader_message, 'Dummy to lead', adapt.PL[dm])
        if got is not adapt.PL[dm]:
            c.violate('lead:dummy', f"'Dummy to lead' with dummy {dm} is read as {got}", {'kind': 'lead', 'msg': 'Dummy to lead', 'dummy': dm})


def names(max_len: int) -> List[str]:
    out = ['']
    for n in range(1, max_len + 1):
        out += [''.join(t) for t in itertools.product(ALPHABET, repeat=n)]
    return out


def check_names(c: Counter, tier: str):
    ns = names(2)
    extra = ['Team North-South', "O'Neil (2) #1", 'a  b', ' lead', 'E/W : x', 'x as North', 'using protocol version 17',
             'N/S', 'a. E/W', '1,000', "it's", 'äöü', 'A' * 60, 'x seated', '.', ' ', 'North', 'ready for teams']
    pool = ns + extra
    # team-name line: every pair (a, b) with one side from the full pool and the other from a short tricky list, both orders
    short = ['', 'a', ' ', '.', ':', "'", 'E/W : x', 'a  b', 'N/S', 'a. E/W'] if tier == 'quick' else extra + ['', 'a', ' ', '.', ':', "'"]
    for a in pool:
        for b in short:
            for x, y in ((a, b), (b, a)):
                c.inc('evals')
                c.inc('teams')
                msg = f'Teams : N/S : "{x}" E/W : "{y}"'
                got = _try(Client.parse_team_names, msg)
                if got != (x, y):
                    c.violate(f'teams:{_ncls(x)}:{_ncls(y)}', f'{msg!r} is read by the client as {got}', {'kind': 'teams', 'ns': x, 'ew': y})
    # connection line: client's builder -> server's parser
    for a in pool:
        for s in SEATS:
            for case in CASES:
                c.inc('evals')
                c.inc('connects')
                msg = f'Connecting "{a}" as {case_of(adapt.PL[s].formal_name, case)} using protocol version 18'
                got = _try(PlayerThread.parse_connection_info, msg)
                if got != (a, adapt.PL[s], 18):
                    c.violate(f'connect:{_ncls(a)}:{case}', f'{msg!r} is read by the server as {got}', {'kind': 'connect', 'team': a, 'seat': s, 'msg': msg})
        c.see('cls', ('name', a))
    for v in (0, 1, 17, 18, 19, 180, 2005):
        c.inc('evals')
        got = _try(PlayerThread.parse_connection_info, f'Connecting "T" as East using protocol version {v}')
        if got != ('T', Player.E, v):
            c.violate('connect:version', f'protocol version {v} is read as {got}', {'kind': 'connect', 'team': 'T', 'seat': 'E', 'version': v})
    c.sample({'teams line': 'Teams : N/S : "a. E/W" E/W : "\'"', 'parsed': ['a. E/W', "'"]})


def _ncls(x: str) -> str:
    if x == '':
        return 'empty'
    if x.strip() != x:
        return 'edge-blank'
    if '  ' in x:
        return 'double-blank'
    if any(ch in x for ch in './:'):
        return 'punct'
    return 'plain'


def hand_roundtrip(cards: List[int], c: Counter, who: Optional[str] = None):
    hand = {adapt.CARDS[i] for i in cards}
    for owner in ((who,) if who else ('South', 'Dummy')):
        c.inc('evals')
        c.inc('hands')
        try:
            text = Server.hand_to_str(hand)
            msg = f"{owner}'s cards : {text}"
            hs = Client.parse_cards(msg, owner)
            got_set, got_bin = Client.parse_hand(hs)
        except Exception as e:  # noqa
            c.violate(f'hand:raise:{_hcls(cards)}', f'hand {sorted(cards)} cannot be sent/read: {type(e).__name__}: {e}',
                      {'kind': 'hand', 'cards': sorted(cards), 'owner': owner})
            continue
        exp_bin = tuple(1 if i in cards else 0 for i in range(52))
        if len(cards) % 3 == 0:
            # the receiver plays from the set it was given (the client removes played cards from it); the same text parsed again -
            # the same deal on a later board, the same dummy shown to another client in the process - must still mean the whole hand
            try:
                got_set.clear()
                again, again_bin = Client.parse_hand(Client.parse_cards(msg, owner))
                c.inc('evals')
                if again != hand or tuple(again_bin) != exp_bin:
                    c.violate(f'hand:second-parse:{_hcls(cards)}', f'hand message {msg!r} parsed a second time (after the first result had been played from) is read as '
                                                                   f'{sorted(int(x) for x in again)}', {'kind': 'hand', 'cards': sorted(cards), 'owner': owner})
                got_set, got_bin = again, again_bin
            except Exception as e:  # noqa
                c.violate(f'hand:second-parse-raise:{_hcls(cards)}', f'second parse of {msg!r}: {type(e).__name__}: {e}', {'kind': 'hand', 'cards': sorted(cards), 'owner': owner})
        if got_set != hand or tuple(got_bin) != exp_bin:
            c.violate(f'hand:differs:{_hcls(cards)}', f'hand {sorted(cards)} sent as {msg!r} is read back as {sorted(int(x) for x in got_set)}',
                      {'kind': 'hand', 'cards': sorted(cards), 'owner': owner})
        ref = P.parse_hand_text(text)
        if ref is None or set(ref) != set(cards):
            c.violate(f'hand:text:{_hcls(cards)}', f'hand text {text!r} does not spell {sorted(cards)} (S/H/D/C sections, "-" for a void)',
                      {'kind': 'hand', 'cards': sorted(cards), 'owner': owner})


def _hcls(cards) -> str:
    voids = sum(1 for s in range(4) if not any(i // 13 == s for i in cards))
    return f'n{min(len(cards), 3)}v{voids}'


def hands_unit(args):
    """All hands of <= 13 cards from a reduced deck whose spade holding is fixed (one work unit per spade holding)."""
    ranks, spade_mask = args
    c = Counter()
    k = len(ranks)
    spades = [3 * 13 + ranks[j] for j in range(k) if spade_mask >> j & 1]
    rest_cards = [s * 13 + r for s in range(3) for r in ranks]
    n = len(rest_cards)
    for m in range(1 << n):
        if bin(m).count('1') + len(spades) > 13:
            continue
        cards = spades + [rest_cards[j] for j in range(n) if m >> j & 1]
        hand_roundtrip(cards, c, who='South' if m & 1 else 'Dummy')
        c.see('hcls', _hcls(cards))
    return c


def holdings_unit(suit: int):
    """Every one of the 8192 holdings in one suit (other suits void / one card / a few cards)."""
    c = Counter()
    for m in range(1 << 13):
        cards = [suit * 13 + r for r in range(13) if m >> r & 1]
        hand_roundtrip(cards, c, who='South')
        if m % 7 == 0 and len(cards) <= 10:
            other = [((suit + 1) % 4) * 13 + (m % 13), ((suit + 2) % 4) * 13 + (m // 13 % 13), ((suit + 3) % 4) * 13 + 12]
            hand_roundtrip(cards + other, c, who='Dummy')
        c.see('hcls', _hcls(cards))
    return c


def check_relay(c: Counter):
    """The relay path itself: the real Server.bidding_phase is run on its own queues (no threads: the queues are pre-filled with the
    callers' messages); every line it relays to another seat must be read by a client's parser as the call that was made, and the
    partner of an alerting player is relayed the bare call."""
    import pathlib
    from ..ref import auction as RA
    auctions = [['1C', 'X', 'XX', 'Pass', 'Pass', 'Pass'], ['Pass', 'Pass', 'Pass', '7NT', 'X', 'Pass', 'Pass', 'Pass'], ['Pass'] * 4,
                ['1S', '2S', 'Pass', 'Pass', 'X', 'Pass', 'Pass', 'Pass'], ['2H', 'Pass', 'Pass', 'Pass']]
    for auc in auctions:
        for dealer in SEATS:
            for al in ALERTS:
                for case in CASES:
                    srv = Server(ip_address='127.0.0.1', port=2000, output_file_path=pathlib.Path('x.json'), board_settings=None)
                    msgs = []
                    for i, call in enumerate(auc):
                        a = RA.seat_at(dealer, i)
                        m = case_of(Client.create_bid_message(adapt.call_obj(call), adapt.PL[a].formal_name), case) + al
                        msgs.append((a, call, m))
                        srv.received_message_queues[adapt.PL[a]].put(m)
                    rp = {'kind': 'relay', 'auction': auc, 'dealer': dealer, 'alert': al, 'case': case}
                    c.inc('evals')
                    c.inc('relayed_auctions')
                    try:
                        srv.bidding_phase(adapt.PL[dealer], Vul.NONE)
                    except Exception as e:  # noqa
                        c.violate(f'relay:raise:{al.strip() or "noalert"}:{case}', f'Server.bidding_phase on the auction {auc} (dealer {dealer}, messages as {msgs[0][2]!r}) raised {type(e).__name__}: {e}', rp)
                        continue
                    for p in SEATS:
                        q = srv.sent_message_queues[adapt.PL[p]]
                        got = []
                        while not q.empty():
                            got.append(q.get())
                        formal = {adapt.PL[x].formal_name for x in SEATS}
                        relayed = [g for g in got if g not in formal and g not in (Server.Message.NULL, Server.Message.PASSED_OUT)]
                        exp = [(a, call) for a, call, m in msgs if a != p]
                        if len(relayed) != len(exp):
                            c.violate(f'relay:count', f'auction {auc} (dealer {dealer}): seat {p} was relayed {len(relayed)} calls, {len(exp)} were made by others', rp)
                            continue
                        for line, (a, call) in zip(relayed, exp):
                            r = _try(MessageInterface.parse_bid, line, adapt.PL[a].formal_name)
                            if r is not adapt.call_obj(call):
                                c.violate(f'relay:meaning:{_cls(call)}:{al.strip() or "noalert"}', f'the line {line!r} relayed to {p} is read by a client as {r}; {a} made the call {call} (sent as {[m for x, y, m in msgs if x == a][0]!r})', rp)
                                break
                            if al and 'alert' in line.lower() and p == RA.seat_at(a, 2):
                                c.violate('relay:alert-to-partner', f'the alert of {a} was disclosed to its partner {p}: {line!r}', rp)
                                break


# ------------------------------------------------------------------------------------------------------------------
# part 2: framing

class SpinDetected(BaseException):
    pass


def check_handshake(c: Counter, tier: str):
    """The client's side of the admission handshake, run for real: Client._connect over a scripted connection that answers with the
    lines the server builds (seated reply, team line).  Every team name of the admission alphabet must get through, for every seat."""
    pool = names(2 if tier == 'thorough' else 1) + ['Team North-South', "O'Neil (2) #1", 'a  b', 'Meadowlark++ (v2)', 'Q-Plus [beta]?', 'x|y', 'a\\b', '^$', '*', 'E/W : x', '.+', '(']
    for team in pool:
        for k, s in enumerate(SEATS):
            other = pool[(pool.index(team) + 7) % len(pool)]
            ns, ew = (team, other) if s in 'NS' else (other, team)
            pl = adapt.PL[s]
            lines = [f'{pl.formal_name} {team} seated', f'Teams : N/S : "{ns}" E/W : "{ew}"']
            fc = FakeConn([(x + '\r\n').encode('utf-8') for x in lines])
            fc.connect = lambda *a: None
            cl = Client(player=pl, team_name=team, bidding_system=None, playing_system=None, ip_address='h', port=1)
            cl._socket = fc
            MessageInterface.__init__(cl, connection_socket=fc)
            c.inc('evals')
            c.inc('handshakes')
            rp = {'kind': 'handshake', 'team': team, 'seat': s, 'other': other}
            try:
                cl._connect()
            except BaseException as e:  # noqa
                c.violate(f'handshake:{_ncls(team)}:{"meta" if any(ch in team for ch in "+*?[]()|^$.\\") else "plain"}',
                          f'the bundled client with team name {team!r} in seat {s} does not get through its own admission handshake (server lines {lines}): {type(e).__name__}: {e}', rp)
                continue
            sent = bytes(fc.sent).decode('utf-8').split('\r\n')
            got = _try(PlayerThread.parse_connection_info, sent[0])
            if got != (team, pl, 18) or cl.opponent_team_name != other:
                c.violate(f'handshake:meaning:{_ncls(team)}', f'client {s} of team {team!r}: the server reads its request {sent[0]!r} as {got}; the client takes the opponents to be {cl.opponent_team_name!r} (they are {other!r})', rp)


class FakeConn:
    """Byte-level connection: the stream is delivered in the given chunks (recv never crosses a chunk boundary); after the
    last chunk the peer has closed: recv returns b'' - and after SPIN_LIMIT such reads the receiver is declared spinning."""
    SPIN_LIMIT = 6

    def __init__(self, chunks: List[bytes]):
        self.chunks = [bytearray(x) for x in chunks if x]
        self.eof_reads = 0
        self.calls = 0
        self.sent = bytearray()

    def recv(self, n, *a):
        self.calls += 1
        if n <= 0:
            raise ValueError('recv size')
        while self.chunks and not self.chunks[0]:
            self.chunks.pop(0)
        if not self.chunks:
            self.eof_reads += 1
            if self.eof_reads >= self.SPIN_LIMIT:
                raise SpinDetected()
            return b''
        out = bytes(self.chunks[0][:n])
        del self.chunks[0][:n]
        return out

    def send(self, data, *a):
        # a socket under back-pressure takes only part of what it is offered
        k = min(len(data), 5)
        self.sent.extend(data[:k])
        return k

    def sendall(self, data, *a):
        data = bytes(data)
        while data:
            k = self.send(data)
            data = data[k:]

    def close(self):
        pass


MSGS_SMALL = ['', 'a', 'é', 'North passes']
LONG = 'South ready for North\'s card to trick 12'          # 40 bytes


def wire(msgs: List[str]) -> bytes:
    """Bytes produced by the real send_message for the sequence."""
    fc = FakeConn([])
    mi = MessageInterface(fc)
    for m in msgs:
        mi.send_message(m)
    return bytes(fc.sent)


def split_by_mask(data: bytes, mask: int) -> List[bytes]:
    out, start = [], 0
    for i in range(1, len(data)):
        if mask >> (i - 1) & 1:
            out.append(data[start:i])
            start = i
    out.append(data[start:])
    return out


def receive_all(chunks: List[bytes], n_expected: int, c: Counter):
    """Receive n_expected messages and then one more (which must raise, the peer having closed).  Returns (messages,
    verdict of the extra receive: 'raised' | 'spin' | 'returned:<msg>')."""
    fc = FakeConn(chunks)
    mi = MessageInterface(fc)
    got = []
    try:
        for _ in range(n_expected):
            got.append(mi.receive_message())
    except SpinDetected:
        return got, 'spin-early'
    except Exception as e:  # noqa
        return got, f'raised-early:{type(e).__name__}'
    try:
        extra = mi.receive_message()
        return got, f'returned:{extra!r}'
    except SpinDetected:
        return got, 'spin'
    except Exception:  # noqa
        return got, 'raised'


def framing_unit(args):
    kind, payload = args
    c = Counter()
    if kind == 'all-chunkings':
        msgs = payload
        data = wire(msgs)
        exp_bytes = b''.join(m.encode('utf-8') + b'\r\n' for m in msgs)
        if data != exp_bytes:
            c.violate('frame:send', f'send_message wrote {data!r} for {msgs}', {'kind': 'frame', 'msgs': msgs})
            return c
        n = len(data)
        for mask in range(1 << max(0, n - 1)):
            chunks = split_by_mask(data, mask)
            c.inc('evals')
            c.inc('streams')
            got, end = receive_all(chunks, len(msgs), c)
            judge_frame(c, msgs, chunks, got, end, 'chunk')
        # end of stream at every byte position (the stream cut after k bytes), in one piece and byte by byte
        for k in range(n):
            cut = data[:k]
            whole = sum(1 for i in range(len(msgs)) if len(b''.join(m.encode('utf-8') + b'\r\n' for m in msgs[:i + 1])) <= k)
            for chunks in ([cut], [bytes([b]) for b in cut]):
                c.inc('evals')
                c.inc('eof_points')
                got, end = receive_all(chunks, whole, c)
                where = eof_where(msgs, k)
                judge_frame(c, msgs[:whole], chunks, got, end, f'eof-{where}')
                c.see('cls', ('eof', where))
        c.see('cls', ('seq', tuple(len(m) for m in msgs)))
    elif kind == 'straddle':
        msgs = payload
        data = wire(msgs)
        n = len(data)
        bounds = []
        pos = 0
        for m in msgs:
            pos += len(m.encode('utf-8')) + 2
            bounds.append(pos)
        cuts_near = sorted({b + d for b in bounds for d in (-3, -2, -1, 0, 1) if 0 < b + d < n})
        # every subset of the cut positions adjacent to a message boundary (inside CR LF, just before, just after)
        for r in range(len(cuts_near) + 1):
            for sub in itertools.combinations(cuts_near, r):
                if r > 4:
                    break
                mask = 0
                for p in sub:
                    mask |= 1 << (p - 1)
                chunks = split_by_mask(data, mask)
                c.inc('evals')
                c.inc('streams')
                got, end = receive_all(chunks, len(msgs), c)
                judge_frame(c, msgs, chunks, got, end, 'straddle')
        for k in range(n):
            cut = data[:k]
            whole = sum(1 for b in bounds if b <= k)
            c.inc('evals')
            c.inc('eof_points')
            got, end = receive_all([cut], whole, c)
            judge_frame(c, msgs[:whole], [cut], got, end, f'eof-{eof_where(msgs, k)}')
    return c


def eof_where(msgs, k) -> str:
    pos = 0
    for m in msgs:
        b = len(m.encode('utf-8'))
        if k == pos:
            return 'between'
        if k <= pos + b:
            return 'inside'
        if k == pos + b + 1:
            return 'after-CR'
        pos += b + 2
    return 'between'


def judge_frame(c: Counter, msgs, chunks, got, end, tag):
    rp = {'kind': 'frame', 'msgs': list(msgs), 'chunks': [x.hex() for x in chunks]}
    if got != list(msgs):
        c.violate(f'frame:messages:{tag}', f'stream delivered as {[bytes(x) for x in chunks][:8]} carried {list(msgs)}, received {got} ({end})', rp)
    if end == 'spin' or end == 'spin-early':
        c.violate(f'frame:spin:{tag}', f'after the peer closed the connection receive_message keeps calling recv (>= {FakeConn.SPIN_LIMIT} empty reads): '
                                       f'it never returns and never raises (stream {[bytes(x) for x in chunks][:6]})', rp)
    elif end.startswith('returned'):
        c.violate(f'frame:phantom:{tag}', f'after the peer closed the connection receive_message {end} instead of raising', rp)
    elif end.startswith('raised-early'):
        if got == list(msgs)[:len(got)] and len(got) < len(msgs):
            c.violate(f'frame:raise:{tag}', f'receive_message raised ({end}) while complete messages were still in the stream', rp)
    c.see('end', end.split(':')[0])


# ------------------------------------------------------------------------------------------------------------------

def run(tier, seed, workers):
    c = Counter()
    check_calls(c)
    check_cards(c)
    check_headers(c, list(range(1, 121)) + [10 ** k for k in range(3, 10)])
    check_names(c, tier)
    check_relay(c)
    check_handshake(c, tier)
    ranks = [0, 7, 8, 12] if tier == 'quick' else [0, 7, 8, 9, 12]      # 2 9 T (J) A
    units = [(ranks, m) for m in range(1 << len(ranks))]
    cs = pmap(hands_unit, units, workers)
    cs += pmap(holdings_unit, [0, 1, 2, 3], workers)
    seqs = [list(t) for n in (1, 2, 3) for t in itertools.product(MSGS_SMALL[:3], repeat=n)]
    seqs = [s for s in seqs if len(wire(s)) <= (11 if tier == 'quick' else 13)]
    f_units = [('all-chunkings', s) for s in seqs]
    longs = [[LONG], [LONG, 'a'], ['a', LONG], [LONG, LONG], ['North passes', '', LONG], [LONG, 'é', 'North bids 7NT']]
    f_units += [('straddle', s) for s in longs]
    f_units += [('all-chunkings', ['North passes'][:1])] if tier == 'thorough' else []
    cs += pmap(framing_unit, f_units, workers)
    tot = merge_all([c] + cs)
    n = tot.get('evals')
    cov = {
        'states': n, 'transitions': n + tot.get('streams'), 'traces_validated_against_impl': n,
        'evaluations': n, 'distinct_nontrivial': tot.distinct('cls') + tot.distinct('hcls'),
        'call_messages': tot.get('calls'), 'card_messages': tot.get('cards'), 'board_headers': tot.get('headers'),
        'auctions_relayed_by_the_real_bidding_phase': tot.get('relayed_auctions'), 'client_handshakes': tot.get('handshakes'), 'team_lines': tot.get('teams'), 'connection_lines': tot.get('connects'), 'hands': tot.get('hands'),
        'byte_streams_chunked': tot.get('streams'), 'end_of_stream_points': tot.get('eof_points'),
        'end_verdicts_seen': sorted(tot.sets.get('end', [])),
        'rule': 'builder/parser pairs over complete finite domains: 38 calls x 4 seats x 3 letter cases x 5 alert forms through the '
                'server\'s alert stripping + parse_bid (and the relayed line through a client\'s parse_bid); 52 cards x 4 seats x 2 '
                'notations x 3 cases; board numbers 1..120 and 10^k x 4 dealers x 4 vulnerabilities; 5 auctions x 4 dealers x 5 alert forms x 3 cases relayed by the real Server.bidding_phase (queues pre-filled) and read by parse_bid, alerts never relayed to the partner; lead prompts; team names = every '
                f'string of length <= 2 over {ALPHABET!r} plus a tricky list, in team lines and connection lines; hands = every hand '
                f'of <= 13 cards of the reduced deck (ranks {ranks} x 4 suits) and all 8192 holdings per suit, as own hand and as '
                'dummy\'s.  The client\'s own admission handshake (Client._connect over a scripted connection) for every team name x 4 seats.  The fake connection takes at most 5 bytes per send() (short writes).  Framing: message sequences of length 1..3 over {empty, a, e-acute} with EVERY chunking of the byte '
                'stream, 40-byte lines with every subset (<= 4) of cuts adjacent to message boundaries, and end of stream at '
                'EVERY byte position (whole and byte-by-byte delivery); the receiver must deliver the complete messages and then '
                'raise; a spin is >= 6 empty reads after end-of-stream.',
        'samples': tot.samples[:6] + [{'stream': 'a\\r\\n\\xc3\\xa9\\r\\n', 'chunking': ['a\\r', '\\n\\xc3', '\\xa9\\r\\n'], 'eof after': 'every k in 0..7'}],
        'exhaustive': True,
        'explanation': 'exhaustive over the stated finite domains; team names, hands and streams beyond the stated alphabets/lengths are not enumerated',
    }
    return Result(cov, tot.violations, ['an alert suffix is one of the bare forms " Alert." (any case, extra blanks); free text after it is outside the property',
                                         'team names contain no double quote (as the quantifier says)'])


def replay(d):
    c = Counter()
    k = d.get('kind')
    if k == 'call':
        pl = adapt.PL[d['seat']]
        try:
            relay, got = server_reads_call(d['msg'], pl)
            ok = got is adapt.call_obj(d['call']) and MessageInterface.parse_bid(relay, pl.formal_name) is got
            return (not ok), f'server reads {d["msg"]!r} as {got}, relays {relay!r}'
        except Exception as e:  # noqa
            return True, f'{type(e).__name__}: {e}'
    if k == 'card':
        got = _try(MessageInterface.parse_card, d['msg'], adapt.PL[d['seat']])
        return got != adapt.CARDS[d['card']], f'{d["msg"]!r} -> {got}'
    if k == 'header':
        got = _try(Client.parse_board, d['msg'])
        return isinstance(got, str), f'{d["msg"]!r} -> {got}'
    if k == 'teams':
        got = _try(Client.parse_team_names, f'Teams : N/S : "{d["ns"]}" E/W : "{d["ew"]}"')
        return got != (d['ns'], d['ew']), f'-> {got}'
    if k == 'connect':
        msg = d.get('msg') or f'Connecting "{d["team"]}" as East using protocol version {d.get("version", 18)}'
        got = _try(PlayerThread.parse_connection_info, msg)
        return got != (d['team'], adapt.PL[d['seat']], d.get('version', 18)), f'{msg!r} -> {got}'
    if k == 'hand':
        hand_roundtrip(d['cards'], c, who=d['owner'])
        return bool(c.violations), '; '.join(v.message for v in c.violations) or 'round trip ok'
    if k == 'lead':
        got = _try(Client.parse_leader_message, d['msg'], adapt.PL[d['dummy']])
        return isinstance(got, str), f'-> {got}'
    if k == 'handshake':
        check_handshake(c, 'thorough')
        v = [x for x in c.violations if x.replay.get('team') == d['team']]
        return bool(v), '; '.join(x.message for x in v[:2]) or 'handshake completes'
    if k == 'relay':
        check_relay(c)
        v = [x for x in c.violations if x.replay.get('auction') == d['auction'] and x.replay.get('dealer') == d['dealer'] and x.replay.get('alert') == d['alert'] and x.replay.get('case') == d['case']]
        return bool(v), '; '.join(x.message for x in v) or 'relay understood'
    if k == 'frame':
        chunks = [bytes.fromhex(x) for x in d['chunks']]
        got, end = receive_all(chunks, len(d['msgs']), c)
        judge_frame(c, d['msgs'], chunks, got, end, 'replay')
        return bool(c.violations), f'received {got}, then {end}'
    return False, 'unknown replay kind'


from ..conc import driver as _conc  # noqa: E402
_conc.wrap(globals(), 'C19')
