"""C11 - all replicas of a board agree with the table manager.

In process: in every L3 play-out (see C04) four ObservedPlayingPhase objects, one per seat, are fed the same public plays
as PlayingPhaseWithHands (dummy's hand handed to the three other seats after the opening lead); after every play contract,
declarer, dummy, leader, seat on turn, trick number, trick history and both counts must be equal, and no observer may reject
a play the table accepted (revokes included).
Over the protocol: sessions of the real server with four bundled Clients under the virtual scheduler (see C11 protocol part
in mc/props/C11net.py when present)."""
from ..core import Result, merge_all
from . import C04

TAG = 'C11'


def run(tier, seed, workers):
    tot = C04.run_play(TAG, tier, seed, workers)
    try:
        from . import C11net
    except ImportError:
        C11net = None
    net_cov = {}
    if C11net is not None:
        t2, net_cov = C11net.run_net(tier, seed, workers)
        tot = merge_all([tot, t2])
    viol = [v for v in tot.violations if v.key.startswith(TAG + ':')]
    cov = C04.coverage(tot, tier, TAG)
    cov['rule'] = ('in process: L3 play-outs (<= d departures from the lowest-legal-card line incl. revokes; small-scope deals complete) on PlayingPhaseWithHands + one ObservedPlayingPhase per seat, '
                   'public state compared after every play, observers must accept every play the table accepted. ' + net_cov.pop('rule', ''))
    cov.update(net_cov)
    cov['samples'] = [{'playout': '3H by S, departure at play 17 (revoke)', 'compared': 'contract, declarer, dummy, leader, turn, trick number, history, NS, EW, over'}] + cov.pop('net_samples', [])
    return Result(cov, viol, C04.ASSUME[:1])


def replay(d):
    if d.get('kind') == 'session':
        from . import C11net
        return C11net.replay(d)
    return C04.replay(d)
