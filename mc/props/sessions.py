"""Shared driver of the Engine-B session checks (C08, C09, C10): runs scenarios under the schedule explorer, judges every
execution with all three oracles and reports the violations tagged with the property that was asked for."""
from __future__ import annotations

import hashlib
from typing import Dict, List, Optional

from ..core import Counter, Result, Violation, merge_all, pmap
from ..ref import protocol as P
from ..sched import explore, prims, session, world
from . import scen


def make_ctx(spec: dict, all_visible: bool = False) -> explore.Ctx:
    plans = scen.plans_of(spec)
    nts = scen.notations_of(spec)
    _, expected = P.build_session(plans, spec['teams'], nts)
    n = len(plans)
    name = scen.name_of(spec)

    spec_b = spec.get('second_table')
    if spec_b:
        plans_b = scen.plans_of(spec_b)
        _, expected_b = P.build_session(plans_b, spec_b['teams'], scen.notations_of(spec_b))

    def factory():
        a = session.scripted_setup(plans, session.conforming_clients(plans, spec['teams'], nts, spec.get('sequential', False), spec.get('linger', False)),
                                   server_kwargs=None, fragment=spec.get('fragment'), existing_output=spec.get('existing_output'),
                                   seat_table_visible=not spec.get('plain_seats'))
        if not spec_b:
            return a
        b = session.scripted_setup(plans_b, session.conforming_clients(plans_b, spec_b['teams'], scen.notations_of(spec_b), prefix='cl2'), table=1)
        return session.two_tables_setup(a, b)

    def judge(x: world.Execution, c: Counter, choices):
        rp = {'kind': 'session', 'spec': spec, 'choices': list(x.choices) if not (choices and str(choices[0]).startswith('priority')) else None,
              'policy': choices if (choices and str(choices[0]).startswith('priority')) else None, 'all_visible': all_visible}
        for k, m in session.judge_liveness(x, n):
            c.violate(f'C09:{k}', f'[{name}] {m}', rp)
        for k, m in session.judge_conversation(x):
            c.violate(f'C10:{k}', f'[{name}] {m}', rp)
        stalled = session.judge_stalled(x)
        for k, m in stalled[:1]:
            c.violate(f'C10:{k}', f'[{name}] {m}', rp)
        if stalled:
            c.violate('C08:session-stalled', f'[{name}] the session stalled ({x.status}) before the log of its {n} board(s) was complete: '
                                             f'{len((x.extra.get("log_text") or "").splitlines())} log lines written', rp)
        if x.status in ('complete', 'mismatch'):
            for k, m in session.concealment_scan(x, plans):
                c.violate(f'C10:{k}', f'[{name}] {m}', rp)
        if x.status == 'complete':
            for k, m in session.judge_log(x, expected):
                c.violate(f'C08:{k}', f'[{name}] {m}', rp)
            if spec_b:
                class _X:          # the second table's log, judged like the first
                    extra = x.extra['second_table']
                for k, m in session.judge_log(_X, expected_b):
                    c.violate(f'C08:{k}', f'[{name}, second table in the same process] {m}', rp)
            txt = x.extra.get('log_text') or ''
            c.see(f'log:{name}', hashlib.sha1(txt.encode()).hexdigest())
            c.see(f'sig:{name}', hash(session.outcome_signature(x)))
            c.inc('complete')
        if x.notes:
            c.see('notes', tuple(x.notes))
        c.see('outcome', (name, x.status))
    ctx = explore.Ctx(factory, judge, all_visible=all_visible)
    ctx.name = name
    ctx.spec = spec
    return ctx


PRIORITY_NAMES = ['main', 'T1', 'T2', 'T3', 'T4', 'cl-N', 'cl-E', 'cl-S', 'cl-W']


def run_item(item: dict, workers: int) -> Counter:
    """item = {'spec', 'd', 'priority': bool, 'cached': bool, 'all_visible': bool, 'max_execs': int|None}"""
    ctx = make_ctx(item['spec'], item.get('all_visible', False))
    c = Counter()
    if item.get('cached'):
        explore.cached(ctx, workers, item.get('max_execs'), c)
        c.inc('cached_scenarios')
        c.n['cached_states'] = c.n.pop('states', 0)
        c.n['cached_transitions'] = c.n.pop('transitions', 0)
    else:
        explore.bounded(ctx, item.get('d', 0), workers, c)
        if item.get('priority'):
            explore.priority(ctx, PRIORITY_NAMES, c, workers=workers)
    c.inc('scenarios')
    # schedule independence of the log (C08) within this scenario
    sigs = c.sets.get(f'sig:{ctx.name}', set())
    if len(sigs) > 1:
        c.violate('C09:schedule-dependent-outcome', f'[{ctx.name}] completed executions of the same session differ between schedules in their per-connection conversations, '
                                                    f'log or thread end states ({len(sigs)} distinct outcomes)',
                  {'kind': 'session', 'spec': item['spec'], 'choices': None, 'policy': None, 'note': 'compare schedules'})
    logs = c.sets.get(f'log:{ctx.name}', set())
    if len(logs) > 1:
        c.violate('C08:timing', f'[{ctx.name}] the log differs between schedules of the same session ({len(logs)} distinct contents)',
                  {'kind': 'session', 'spec': item['spec'], 'choices': None, 'policy': None, 'note': 'compare schedules'})
    return c


RULE_C10 = ('same executions as C08; oracle: the complete server->client message sequence of every connection equals the transcript '
            'generated by the reference table manager (board header as configured; only the seat\'s own 13 cards; every call and '
            'card of another connection exactly once, in order, none of its own; dummy\'s cards once, to the three other seats, '
            'after the opening lead and before the second card; lead prompts only to the seat that must produce the card), compared '
            'on meaning (kind, payload), plus a script-independent scan that no connection is sent another seat\'s hand')


def run_items(tag: str, items: List[dict], workers: int, outer: bool, rule: str, assumptions: List[str], samples=None) -> Result:
    if outer:
        cs = pmap(lambda it: run_item(it, 1), items, workers)
    else:
        cs = [run_item(it, workers) for it in items]
    return finish(tag, items, cs, rule, assumptions, samples)


def finish(tag: str, items: List[dict], cs: List[Counter], rule: Optional[str], assumptions: List[str], samples=None) -> Result:
    rule = rule or RULE_C10
    tot = merge_all(cs)
    viol = [v for v in tot.violations if v.key.startswith(tag + ':')]
    ex = tot.get('executions')
    outcomes = sorted({o[1] for o in tot.sets.get('outcome', set())})
    nlog = sum(len(v) for k, v in tot.sets.items() if k.startswith('log:'))
    cov = {
        'states': tot.get('cached_states') + tot.get('points'),
        'transitions': tot.get('steps'),
        'traces_validated_against_impl': ex,
        'evaluations': ex,
        'distinct_nontrivial': sum(len(v) for k, v in tot.sets.items() if k.startswith('sig:')) + tot.get('cached_states'),
        'executions': ex, 'scenarios': tot.get('scenarios'), 'scheduling_points_visited': tot.get('points'),
        'operations_executed': tot.get('steps'), 'max_scheduling_points_in_one_execution': tot.maxes.get('max_points'),
        'deviation_bound_completed': tot.maxes.get('deviation_bound_completed', 0),
        'priority_schedules': tot.get('priority_schedules'),
        'state_cached_scenarios': tot.get('cached_scenarios'), 'state_cached_states': tot.get('cached_states'),
        'state_cached_transitions': tot.get('cached_transitions'),
        'state_cached_unexplored_prefixes': tot.get('unexplored_prefixes'), 'caps_hit': tot.get('cap_hit'),
        'complete_executions': tot.get('complete'), 'execution_outcomes': outcomes, 'distinct_log_contents': nlog,
        'rule': rule,
        'samples': (samples or [{'scenario': scen.name_of(it['spec']), 'd': it.get('d', 0), 'priority': bool(it.get('priority')),
                                 'cached': bool(it.get('cached'))} for it in items[:6]]) + tot.samples[:3],
        'exhaustive': False,
        'explanation': 'exhaustive within the stated deviation bound (and without bound for the state-cached scenarios); the space '
                       'of all schedules / all sessions is not finite',
        'notes': sorted({n for t in tot.sets.get('notes', set()) for n in t})[:5],
    }
    return Result(cov, viol, assumptions)


def replay(d: dict):
    spec = d['spec']
    ctx = make_ctx(spec, d.get('all_visible', False))
    c = Counter()
    if d.get('policy'):
        if d['policy'][0] == 'priority-deep':
            ctx.all_visible = True
        x = explore.run_once(ctx, [], policy=prims.FairPolicy() if d['policy'][1] == '@fair' else prims.PriorityPolicy(d['policy'][1]))
        ctx.judge(x, c, d['policy'])
    elif d.get('choices') is None:
        return False, 'this violation compares several schedules; re-run the check'
    else:
        explore.warm(ctx, d)
        x = explore.run_once(ctx, d['choices'])
        x2 = explore.run_once(ctx, d['choices'])
        if session.outcome_signature(x) != session.outcome_signature(x2) and not d.get('repeat'):
            raise prims.InternalError('replay is not deterministic')
        ctx.judge(x, c, d['choices'])
    msgs = [f'{v.key}: {v.message}' for v in c.violations]
    sched = [f'{i}: ' + ' | '.join(f'{"*" if j == ch else " "}{n}:{l}' for j, (n, l) in enumerate(en)) for i, (en, ch) in enumerate(x.points)]
    return bool(c.violations), '\n'.join(msgs + ['schedule (enabled threads at each scheduling point, * = chosen):'] + sched[-40:])
