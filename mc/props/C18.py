"""C18 - PBN export is read back by the PBN parser, one game per board.

Operation sequences ([write_header] + write_board_result^k, k = 1..3) of the real PbnWriter on an in-memory stream, over
per-field menus (all 105 contracts + passed-out, declarers, results 0..13, dealers, vulnerabilities, deals incl. voids, names
over the stated alphabet incl. the line-length boundary) -> PbnParser.parse_all and parse_board_settings.
Oracles: one game per board in the order written, the fifteen mandatory tags with the written values, board setting
recovered, every physical line <= 255 characters."""
from __future__ import annotations

import datetime
import io
import itertools
from typing import List

from bridge_env import Bid, Contract, Player
from bridge_env.data_handler.pbn_handler.parser import PbnParser
from bridge_env.data_handler.pbn_handler.writer import PbnWriter, Scoring

from .. import adapt
from ..core import Counter, Result, merge_all, pmap
from ..ref import auction as RA
from ..ref import pbn as RP
from . import scen
from .C17 import ALPHABET, id_class

SEATS = 'NESW'
VULS = adapt.VULS
PBN_VUL = {'None': 'None', 'NS': 'NS', 'EW': 'EW', 'Both': 'All'}
MANDATORY = ['Event', 'Site', 'Date', 'Board', 'West', 'North', 'East', 'South', 'Dealer', 'Vulnerable', 'Deal', 'Scoring',
             'Declarer', 'Contract', 'Result']
MAXLINE = 255


def names() -> List[str]:
    out = [''] + list(ALPHABET) + [a + b for a in ALPHABET for b in ALPHABET]
    out += ['a  b', ' x ', "World Bridge Championship 2019 (A/B) #3: x+y, z_w - 'q'."]
    return out


def boundary_names() -> List[str]:
    """Names for which the tag-pair line [West "<name>"]\\n is exactly 253, 254 and 255 characters long (the longest that
    still fit on one line), built from the alphabet with blanks and punctuation inside."""
    out = []
    for total in (253, 254, 255):
        n = total - len('[West ""]\n')
        base = ("ab 1.,-_/()'+#: " * 20)[:n]
        out.append(base)
    return out


def default(i: int, seed: int) -> dict:
    return {'event': 'Event 1', 'site': 'Tokyo', 'date': [2019, 1, 31], 'num': i + 1, 'names': ['West', 'North', 'East', 'South'],
            'dealer': SEATS[(i + seed) % 4], 'vul': VULS[(i + seed) % 4], 'deal': seed * 7 + i, 'scoring': 'IMP',
            'contract': ['3NT', 0], 'declarer': SEATS[(i + 1) % 4], 'result': 9}


def deal_of(spec):
    d = spec['deal']
    if isinstance(d, dict):
        return {s: frozenset(d[s]) for s in SEATS}
    return scen.deal_from_seed(d)


def void_deal(k: int):
    """Deal k of a small family with voids / 13-card suits (N holds a whole suit, etc.)."""
    suits = [list(range(s * 13, s * 13 + 13)) for s in range(4)]
    rot = suits[k % 4:] + suits[:k % 4]
    if k < 4:
        return {s: frozenset(rot[i]) for i, s in enumerate(SEATS)}            # four 13-0-0-0 hands
    # two-suited hands: N has 7+6, E 6+7 ...
    a, b, c, d = rot
    return {'N': frozenset(a[:7] + b[:6]), 'E': frozenset(a[7:] + b[6:]), 'S': frozenset(c[:7] + d[:6]), 'W': frozenset(c[7:] + d[6:])}


def write(w: PbnWriter, spec: dict, hands=None):
    con = spec['contract']
    if con == 'passout':
        contract = Contract(final_bid=None, vul=adapt.VUL[spec['vul']], declarer=None)
        taken = None
    elif con == 'passout-pass':
        contract = Contract(final_bid=Bid.Pass, vul=adapt.VUL[spec['vul']], declarer=None)
        taken = None
    else:
        contract = adapt.mk_contract(con[0], con[1], spec['vul'], spec['declarer'])
        if spec.get('flags') == 'xx-only' and con[1] == 2:
            # a redoubled contract may also be given with only the redouble flag set (str(contract) spells it XX as well)
            contract = Contract(final_bid=adapt.call_obj(con[0]), x=False, xx=True, vul=adapt.VUL[spec['vul']], declarer=adapt.PL[spec['declarer']])
        taken = spec['result']
    wn, nn, en, sn = spec['names']
    w.write_board_result(event=spec['event'], site=spec['site'], date=datetime.date(*spec['date']), board_num=spec['num'],
                         west_player=wn, north_player=nn, east_player=en, south_player=sn, dealer=adapt.PL[spec['dealer']],
                         deal=hands if hands is not None else adapt.hands_obj(deal_of(spec)), scoring=Scoring[spec['scoring']], contract=contract, taken_tricks=taken)


def expected_tags(spec: dict) -> dict:
    con = spec['contract']
    po = con in ('passout', 'passout-pass')
    wn, nn, en, sn = spec['names']
    return {'Event': spec['event'], 'Site': spec['site'], 'Date': '%04d.%02d.%02d' % tuple(spec['date']), 'Board': str(spec['num']),
            'West': wn, 'North': nn, 'East': en, 'South': sn, 'Dealer': spec['dealer'], 'Vulnerable': PBN_VUL[spec['vul']],
            'Deal': None, 'Scoring': Scoring[spec['scoring']].value, 'Declarer': '' if po else spec['declarer'],
            'Contract': 'Pass' if po else con[0] + 'X' * con[1], 'Result': '' if po else str(spec['result'])}


def case(specs: List[dict], header: bool, c: Counter, tag: str):
    rp = {'kind': 'pbn-export', 'specs': specs, 'header': header}
    buf = io.StringIO()
    try:
        w = PbnWriter(buf)
        if header:
            w.write_header()
        shared_hands = None
        for i, s in enumerate(specs):
            if tag == 'two-writers' and i:
                w = PbnWriter(buf)           # a second session appends to the same stream through its own writer object
            if tag == 'hands-object-reused':
                # the caller keeps ONE Hands object and deals into it again for every board
                d = deal_of(s)
                if shared_hands is None:
                    shared_hands = adapt.hands_obj(d)
                else:
                    for seat, attr in zip(SEATS, ('north', 'east', 'south', 'west')):
                        setattr(shared_hands, attr, {adapt.CARDS[x] for x in d[seat]})
                write(w, s, hands=shared_hands)
            else:
                write(w, s)
    except Exception as e:  # noqa
        c.violate(f'write:{tag}', f'writing {len(specs)} board result(s) raised {type(e).__name__}: {e}', rp)
        return
    text = buf.getvalue()
    c.inc('evals')
    c.inc('documents')
    c.inc('results', len(specs))
    for ln in text.split('\n'):
        if len(ln) + 1 > MAXLINE:
            c.violate(f'line-length:{tag}', f'a written line has {len(ln) + 1} characters including its line end (limit {MAXLINE}): {ln[:60]!r}...', rp)
            break
    try:
        games = PbnParser().parse_all(io.StringIO(text))
    except Exception as e:  # noqa
        c.violate(f'parse:{tag}', f'parse_all raised {type(e).__name__}: {e}', rp)
        return
    if len(games) != len(specs):
        c.violate(f'games:{len(specs)}-written-{len(games)}-read', f'{len(specs)} board results written{" after a header" if header else ""}, parse_all returns {len(games)} game(s) '
                                                                     f'(boards {[g.get("Board") for g in games]})', rp)
        return
    for i, (g, s) in enumerate(zip(games, specs)):
        exp = expected_tags(s)
        if list(g)[:15] != MANDATORY:
            c.violate(f'tags:{tag}', f'game {i + 1}: tags read back {list(g)}, the mandatory set is {MANDATORY}', rp)
        for t, v in exp.items():
            if t == 'Deal':
                d = RP.parse_deal_text(g.get('Deal', ''))
                if d != deal_of(s) or not g.get('Deal', '').startswith(s['dealer'] + ':'):
                    c.violate(f'tag:Deal:{tag}', f'game {i + 1}: Deal tag {g.get("Deal")!r} does not spell the deal written from the dealer {s["dealer"]}', rp)
            elif g.get(t) != v:
                c.violate(f'tag:{t}:{id_class(v)}', f'game {i + 1}: tag {t} read back as {g.get(t)!r}, written {v!r}', rp)
    try:
        sets = PbnParser().parse_board_settings(io.StringIO(text))
    except Exception as e:  # noqa
        c.violate(f'settings:{tag}', f'parse_board_settings on the export raised {type(e).__name__}: {e}', rp)
        return
    if len(sets) != len(specs):
        c.violate(f'settings-count:{tag}', f'{len(sets)} board settings recovered from {len(specs)} results', rp)
        return
    for i, (b, s) in enumerate(zip(sets, specs)):
        ok = b.board_id == str(s['num']) and isinstance(b.dealer, Player) and b.dealer.name == s['dealer'] and adapt.VUL_NAME.get(b.vul) == s['vul'] \
            and adapt.hands_ints(b.hands) == deal_of(s)
        if not ok:
            c.violate(f'setting:{tag}', f'game {i + 1}: board setting recovered as id {b.board_id!r}, dealer {b.dealer}, vul {b.vul}; written {s["num"]}, {s["dealer"]}, {s["vul"]}', rp)
    c.see('cls', (tag, len(specs), header))


def unit(payload):
    c = Counter()
    for specs, header, tag in payload:
        case(specs, header, c, tag)
    return c


def cases(tier: str, seed: int):
    out = []
    D = [default(i, seed) for i in range(3)]

    def var(i=0, **kw):
        s = dict(D[i])
        s.update(kw)
        return s
    # sequences of 1..3 results, with and without header
    for n in (1, 2, 3):
        for header in (False, True):
            out.append((D[:n], header, 'sequence'))
    for n in (2, 3):
        for header in (False, True):
            out.append((D[:n], header, 'two-writers'))
            out.append(([var(i, deal=seed * 50 + i + 11, dealer=SEATS[(i + n) % 4]) for i in range(n)], header, 'hands-object-reused'))
    pool = [var(0), var(1, contract='passout'), var(2, contract=['7NT', 2], result=13, names=["O'Neil", 'a  b', 'x', '']), var(0, contract='passout-pass', num=17)]
    for a, b in itertools.product(pool, repeat=2):
        out.append(([a, b], False, 'pairs'))
    for t in itertools.product(range(len(pool)), repeat=3):
        if True:
            out.append(([pool[i] for i in t], True, 'triples'))
    # contracts x declarers; results
    for bid in RA.BIDS:
        for dbl in (0, 1, 2):
            out.append(([var(contract=[bid, dbl], declarer=SEATS[(RA.BIDS.index(bid) + dbl) % 4], result=(RA.BIDS.index(bid) * 3 + dbl) % 14)], False, 'contract'))
    for bid in RA.BIDS[::3]:
        out.append(([var(contract=[bid, 2], flags='xx-only', declarer=SEATS[RA.BIDS.index(bid) % 4], result=RA.BIDS.index(bid) % 14)], False, 'contract-xx-flag-only'))
    for d, r in itertools.product(SEATS, range(14)):
        out.append(([var(declarer=d, result=r)], False, 'declarer-result'))
    # full product contract x declarer x result (thorough: x vulnerability), two results per document
    vs = VULS if tier == 'thorough' else VULS[:1]
    for bid in RA.BIDS:
        for dbl, d, v in itertools.product((0, 1, 2), SEATS, vs):
            docs = [var(contract=[bid, dbl], declarer=d, result=r, vul=v, num=r + 1) for r in range(14)]
            for i in range(0, 14, 2):
                out.append((docs[i:i + 2], bool(i % 4), 'contract-product'))
    for po in ('passout', 'passout-pass'):
        for v in VULS:
            out.append(([var(contract=po, vul=v), var(1)], True, 'passedout'))
    for dl, v in itertools.product(SEATS, VULS):
        out.append(([var(dealer=dl, vul=v), var(1, dealer=dl, vul=v)], False, 'dealer-vul'))
    for k in range(8):
        for dl in SEATS:
            out.append(([var(deal={s: sorted(x) for s, x in void_deal(k).items()}, dealer=dl)], False, 'void-deal'))
    for k in range(8 if tier == 'quick' else 64):
        out.append(([var(deal=seed * 1000 + k, dealer=SEATS[k % 4])], False, 'deal'))
    for sc in Scoring:
        out.append(([var(scoring=sc.name)], False, 'scoring'))
    for num in (1, 9, 10, 99, 100, 12345):
        out.append(([var(num=num)], False, 'number'))
    for y, m, d in ((2019, 1, 31), (2000, 12, 1), (1999, 2, 28), (2024, 2, 29)):
        out.append(([var(date=[y, m, d])], False, 'date'))
    # names over the alphabet in every name field
    for x in names():
        out.append(([var(event=x, site=x + 'S', names=[x, x + 'N', x + 'E', x + x]), var(1, names=[x] * 4)], False, 'names'))
    for x in boundary_names():
        out.append(([var(names=[x, 'North', 'East', 'South']), var(1)], True, 'boundary'))
        out.append(([var(names=['W', x, x, x])], False, 'boundary'))        # North/East/South lines are 1 / 2 characters longer / same
    return out


def run(tier, seed, workers):
    cs = cases(tier, seed)
    n = max(1, workers)
    tot = merge_all(pmap(unit, [cs[i::n] for i in range(n)], workers))
    nd = tot.get('documents')
    cov = {
        'states': nd, 'transitions': tot.get('results') + nd, 'traces_validated_against_impl': nd, 'evaluations': nd,
        'distinct_nontrivial': tot.distinct('cls'), 'documents': nd, 'board_results_written': tot.get('results'),
        'rule': 'operation sequences [write_header] write_board_result^k (k = 1..3) of PbnWriter on an in-memory stream: all ordered pairs / triples of a 4-result pool '
                '(played, passed out in both encodings, redoubled grand with tricky names); all 105 contracts; 4 declarers x 14 results; dealers x vulnerabilities; '
                '13-0-0-0 and two-suited deals from every dealer; every Scoring; names = every string of length <= 2 over '
                f'{ALPHABET!r} (+ double blanks, a long realistic name) in all six name fields; names for which the tag line is exactly 253/254/255 characters.  '
                'Oracles: parse_all returns one game per result, in order, with the 15 mandatory tags = values written (All/None spelling, empty Declarer/Result and '
                'Contract "Pass" when passed out), Deal tag decoded by an independent PBN reader; parse_board_settings recovers number/dealer/vul/deal; '
                'every physical line <= 255 characters including its line end',
        'samples': [{'sequence': ['header', '3NT by E =9, board 1', 'passed out, board 2']}, {'names': ['a  b', "O'Neil", '', 'x']},
                    {'boundary': 'West name of 245 characters: the line [West "..."] is exactly 255 characters with its line end'}],
        'exhaustive': True,
        'explanation': 'exhaustive over the stated menus; names longer than one line are outside the property',
    }
    return Result(cov, tot.violations, ['names are short enough for each tag pair to fit on one 255-character line (as the quantifier says)'])


def replay(d):
    c = Counter()
    case(d['specs'], d['header'], c, 'replay')
    return bool(c.violations), '\n'.join(f'{v.key}: {v.message}' for v in c.violations) or 'read back correctly'
