"""C11 over the protocol: the real server with four BUNDLED clients under the virtual scheduler."""
from __future__ import annotations

import hashlib
import json
from typing import Dict, List

from ..core import Counter, merge_all, pmap
from ..ref import play as RPL
from ..ref import protocol as P
from ..sched import bundled, explore, prims, session, world
from . import scen

D4 = 'NESW'
V4 = ['None', 'NS', 'EW', 'Both']


def ref_plans(spec: dict, play_kind: str, indices=None) -> List[P.BoardPlan]:
    """Boards as the reference table manager sees them when the bundled clients use the given playing policy."""
    out = []
    for b in spec['boards']:
        auc = scen.AUCTIONS[b['auction']] if isinstance(b['auction'], str) else b['auction']
        deal = scen.deal_from_seed(b['deal'])
        if play_kind in ('lowest', 'highest'):
            pol = 'lowest_legal' if play_kind == 'lowest' else 'highest_legal'
            out.append(P.BoardPlan(b['id'], b['dealer'], b['vul'], deal, auc, policy=pol, dda=scen.dda_from_seed(b['deal']) if b.get('dda') else None))
        else:
            counters = {p: 0 for p in D4}
            idx = indices or {}

            def policy(seat, hand, led, board, counters=counters, idx=idx):
                ctrl = board.declarer if seat == board.dummy else seat
                cs = sorted(RPL.playable(hand, led))
                k = counters[ctrl]
                counters[ctrl] += 1
                lst = idx.get(ctrl, [])
                i = lst[k] if k < len(lst) else 0
                return cs[i % len(cs)]
            plan = P.BoardPlan(b['id'], b['dealer'], b['vul'], deal, auc, play=None, policy='lowest_legal')
            if plan.contract is not None:
                plan.play = P.play_out(deal, plan.contract[2], P.trump_of(plan.contract[0]), policy)
            out.append(plan)
    return out


def make_ctx(item: dict) -> explore.Ctx:
    spec = item['spec']
    kind = item.get('play', 'lowest')
    bidding = item.get('bidding', 'scripted')
    indices = item.get('indices')
    if bidding == 'weak':
        spec = dict(spec, boards=[dict(b, auction=['1C', 'Pass', 'Pass', 'Pass']) for b in spec['boards']])
    elif bidding == 'pass':
        spec = dict(spec, boards=[dict(b, auction=['Pass'] * 4) for b in spec['boards']])
    plans = ref_plans(spec, 'indexed' if kind in ('indexed', 'random') else kind, indices)
    expected = [pl.log_record(spec['teams']) for pl in plans]
    name = scen.name_of(spec) + f'/{kind}/{bidding}'

    def factory():
        return bundled.bundled_setup(plans, spec['teams'], play_kind=kind, bidding=bidding, random_indices=indices, fragment=spec.get('fragment'))

    def judge(x: world.Execution, c: Counter, choices):
        rp = {'kind': 'session', 'net': True, 'item': item, 'choices': list(x.choices) if not (choices and str(choices[0]).startswith('priority')) else None,
              'policy': choices if (choices and str(choices[0]).startswith('priority')) else None}
        e = x.extra
        c.see('outcome', (name, x.status))
        if x.status != 'complete':
            who = {k: v for k, v in e.get('client_exc', {}).items()}
            c.violate(f'C11:net:{x.status}', f'[{name}] the session of the server with four bundled clients did not complete ({x.status}: {x.detail}); client errors {who}', rp)
            return
        for n, d in x.threads.items():
            if d['exc'] is not None:
                c.violate(f'C11:net:thread-exception:{"client" if n.startswith("cl-") else "server"}:{type(d["exc"]).__name__}', f'[{name}] thread {n} ended with {d["exc"]!r}', rp)
        if not e.get('returned') or set(e.get('client_done', {})) != set(D4):
            c.violate('C11:net:not-finished', f'[{name}] server returned: {e.get("returned")}, clients finished: {sorted(e.get("client_done", {}))}', rp)
            return
        # auction replicas
        sb = e['server_bp']
        if len(sb) != len(plans):
            c.violate('C11:net:boards', f'[{name}] the server ran {len(sb)} auctions for {len(plans)} boards', rp)
        for p in D4:
            cb = e['client_bp'][p]
            if cb != sb:
                k = next((i for i, (a, b) in enumerate(zip(cb, sb)) if a != b), min(len(cb), len(sb)))
                a, b = (cb[k] if k < len(cb) else None), (sb[k] if k < len(sb) else None)
                field = next((f for f in ('dealer', 'vul', 'history', 'done', 'contract') if a and b and a[f] != b[f]), 'count')
                c.violate(f'C11:net:auction:{field}', f'[{name}] board {k + 1}: client {p} holds auction/contract {a}, the table manager holds {b}', rp)
        # play replicas: the view after every play
        sv = e['server_views']
        for p in D4:
            cv = e['client_views'][p]
            if cv != sv:
                k = next((i for i, (a, b) in enumerate(zip(cv, sv)) if a != b), min(len(cv), len(sv)))
                a, b = (cv[k] if k < len(cv) else []), (sv[k] if k < len(sv) else [])
                t = next((i for i, (u, v) in enumerate(zip(a, b)) if u != v), min(len(a), len(b)))
                c.violate(f'C11:net:play:{"length" if len(a) != len(b) and t >= min(len(a), len(b)) else "state"}',
                          f'[{name}] played board {k + 1}: client {p} and the table manager differ after play {t + 1}: client {a[t] if t < len(a) else None}, table {b[t] if t < len(b) else None}', rp)
        # the log is what the reference computes from the policies
        for k, m in session.judge_log(x, expected):
            c.violate(f'C11:net:log:{k}', f'[{name}] {m}', rp)
            c.violate(f'C08:bundled:{k}', f'[{name}, four bundled clients] {m}', rp)
        c.see(f'sig:{name}', hashlib.sha1((e.get('log_text') or '').encode()).hexdigest())
        c.inc('complete')
    ctx = explore.Ctx(factory, judge, horizon=3_000_000)
    ctx.name = name
    return ctx


def run_item(item, workers):
    c = Counter()
    ctx = make_ctx(item)
    explore.bounded(ctx, item.get('d', 0), workers, c)
    if item.get('priority'):
        explore.priority(ctx, ['main', 'T1', 'T2', 'T3', 'T4', 'cl-N', 'cl-E', 'cl-S', 'cl-W'], c, workers=workers)
    c.inc('net_scenarios')
    if len(c.sets.get(f'sig:{ctx.name}', ())) > 1:
        c.violate('C11:net:timing', f'[{ctx.name}] outcomes differ between schedules', {})
    return c


def items(tier: str, seed: int):
    its = []
    names = list(scen.AUCTIONS)
    for i, a in enumerate(names):
        its.append(dict(spec=scen.mk_spec([scen.board(seed + i, a, D4[(i + seed) % 4], V4[(i + seed // 2) % 4], dda=(i % 2 == 0))]), play=('lowest', 'highest')[i % 2], d=0))
    for dl in D4:
        for v in V4:
            its.append(dict(spec=scen.mk_spec([scen.board(seed + 20, 'third', dl, v)]), play='lowest', d=0))
    its.append(dict(spec=scen.mk_spec([scen.board(seed + 21, 'passout', 'E', 'Both'), scen.board(seed + 22, 'doubled', 'S', 'NS'), scen.board(seed + 23, 'passout', 'W', 'EW')],
                                      teams={'NS': 'N-S "x"', 'EW': ''}), play='highest', d=0, priority=True))
    its.append(dict(spec=scen.mk_spec([scen.board(seed + 24, 'passout', 'N', 'None')]), bidding='weak', play='random', d=0))
    # the network delivers every message in two pieces (the final LF separately): both ends must still understand each other
    its.append(dict(spec=scen.mk_spec([scen.board(seed + 32, 'doubled', 'W', 'NS'), scen.board(seed + 33, 'passout', 'E', 'None')], fragment='crlf'), play='lowest', d=0))
    its.append(dict(spec=scen.mk_spec([scen.board(seed + 34, 'third', 'S', 'Both')], fragment='crlf'), play='highest', d=0))
    its.append(dict(spec=scen.mk_spec([scen.board(seed + 25, 'passout', 'S', 'Both'), scen.board(seed + 26, 'passout', 'W', 'NS')]), bidding='pass', play='lowest', d=0))
    # enumerated choices of an index-driven player: every pair (i, j) of the first two choices of the opening leader and of declarer
    base = scen.mk_spec([scen.board(seed + 27, 'open1C', D4[seed % 4], V4[seed % 4])])
    rng = range(0, 13, 3) if tier == 'quick' else range(13)
    for i in rng:
        for j in (range(0, 13, 4) if tier == 'quick' else range(13)):
            opening = D4[(D4.index(D4[seed % 4]) + 1) % 4]
            its.append(dict(spec=base, play='indexed', indices={opening: [i, j], D4[seed % 4]: [j, i]}, d=0))
    sched = [dict(spec=scen.mk_spec([scen.board(seed + 28, 'second', D4[(seed + 1) % 4], 'Both')]), play='lowest', d=1, priority=True, inner=True)]
    if tier == 'thorough':
        sched.append(dict(spec=scen.mk_spec([scen.board(seed + 29, 'passout', 'S', 'NS'), scen.board(seed + 30, 'redoubled', 'W', 'EW')]), play='highest', d=1, priority=True, inner=True))
        sched.append(dict(spec=scen.mk_spec([scen.board(seed + 31, 'passout', 'N', 'None')]), bidding='pass', d=2, inner=True))
    return its, sched


def run_net(tier, seed, workers):
    its, sched = items(tier, seed)
    cs = pmap(lambda it: run_item(it, 1), its, workers)
    cs += [run_item(it, workers) for it in sched]
    tot = merge_all(cs)
    cov = {'net_sessions': tot.get('net_scenarios'), 'net_executions': tot.get('executions'), 'net_scheduling_points': tot.get('points'),
           'net_deviation_bound_completed': tot.maxes.get('deviation_bound_completed', 0), 'net_outcomes': sorted({o[1] for o in tot.sets.get('outcome', set())}),
           'rule': 'Over the protocol: real Server.run + 4 seat threads + 4 bundled Client.run under the virtual scheduler; bidding scripted from the 12-auction menu (and the bundled WeakBid / AlwaysPass), '
                   'playing policies lowest / highest playable card, the bundled RandomPlay, and an index-driven player whose first two choices for the opening leader and declarer are enumerated; 4 dealers x 4 '
                   'vulnerabilities; 1-3 boards; all schedules with <= 1 deviation + 9 priority schedules on the schedule scenarios; recording subclasses capture every replica: each client\'s auction/contract '
                   '(incl. dealer, vulnerability) and its public play state after EVERY play must equal the table manager\'s, all threads must end normally, the log must equal the reference.',
           'net_samples': [{'session': 'third/S/Both, four bundled clients, policy lowest', 'compared': '52 views x 4 clients vs the table manager'}]}
    # executions are added to the shared counters by the caller through the merged Counter
    tot.n['playouts'] = tot.n.get('playouts', 0) + tot.get('executions')
    return tot, cov


def replay(d):
    ctx = make_ctx(d['item'])
    c = Counter()
    explore.warm(ctx, d)
    if d.get('policy'):
        if d['policy'][0] == 'priority-deep':
            ctx.all_visible = True
        x = explore.run_once(ctx, [], policy=prims.FairPolicy() if d['policy'][1] == '@fair' else prims.PriorityPolicy(d['policy'][1]))
        ctx.judge(x, c, d['policy'])
    else:
        x = explore.run_once(ctx, d.get('choices') or [])
        ctx.judge(x, c, d.get('choices') or [])
    return bool(c.violations), '\n'.join(f'{v.key}: {v.message}' for v in c.violations) or 'replicas agree'
