"""C12 - JSON game logs are schema-valid and read back exactly as written.

Operation sequences open, write^k, close (k = 0..3, also through `with`) of the real JsonLogWriter on an in-memory
stream; records from per-field menus (each field exhaustive over its menu with the others at defaults, all pairs for the
small menus, all ordered pairs of a record pool for k = 2).  Oracles on every document: one JSON document; validates
against the shipped log schema (Draft-7, cross-file $ref through a registry of the two shipped schema files);
parse_board_logs returns the written records field by field as value objects; parse_board_settings yields the same
boards in the same order."""
from __future__ import annotations

import io
import itertools
import json
import os
from typing import Any, Dict, List, Optional

import bridge_env
from bridge_env import Bid, Card, Contract, Hands, Pair, Player, Suit, TrickHistory, Vul
from bridge_env.data_handler.json_handler.parser import JsonParser
from bridge_env.data_handler.json_handler.writer import JsonLogWriter
from bridge_env.data_handler.pbn_handler.writer import Scoring
from bridge_env.playing_phase import PlayingHistory

from .. import adapt
from ..core import Counter, Result, merge_all, pmap
from ..ref import auction as RA
from . import scen

SEATS = 'NESW'
VULS = adapt.VULS
DENOMS = ['C', 'D', 'H', 'S', 'NT']
NAMES = ['North-South', '', 'a', 'Team "Q"', 'back\\slash', 'new\nline', 'tab\there', '\U0001F0A1 ace', '\ud800', 'line sep',
         'a  b', ' edge ', 'é', '{"logs": []}', ']}', ',', 'null', '0']
AUCTIONS = [[], ['Pass'] * 4, ['1C', 'Pass', 'Pass', 'Pass'], ['1H', 'X', 'XX', 'Pass', 'Pass', 'Pass'],
            ['Pass', 'Pass', 'Pass', '7NT', 'X', 'Pass', 'Pass', 'Pass'], None]      # None = the 319-call maximal auction
SCHEMA_DIR = os.path.join(os.path.dirname(bridge_env.__file__), 'data_handler', 'json_handler')


def max_auction() -> List[str]:
    mx = ['Pass'] * 3
    for b in RA.BIDS:
        mx += [b, 'Pass', 'Pass', 'X', 'Pass', 'Pass', 'XX', 'Pass', 'Pass']
    return mx + ['Pass']


def default_spec(i: int = 0) -> dict:
    return {'id': f'board {i}', 'names': ['Alpha', 'Beta', 'Alpha', 'Beta'], 'dealer': 'N', 'vul': 'None', 'deal': i,
            'auction': 2, 'contract': ['1C', 0], 'declarer': 'N', 'tricks': 13, 'taken': 7, 'scoring': 'IMP',
            'scores': [70, -70], 'dda': False, 'flags': 'canonical'}


def trick_list(deal: Dict[str, frozenset], n: int):
    """n synthetic recorded tricks: (leader seat, 4 card ints); leaders rotate irregularly, cards from the deal in seat order."""
    hands = {s: sorted(deal[s]) for s in SEATS}
    out = []
    for t in range(n):
        leader = SEATS[(t * 3 + t // 4) % 4]
        order = [SEATS[(SEATS.index(leader) + j) % 4] for j in range(4)]
        out.append((leader, [hands[s][t] for s in order]))
    return out


def build(spec: dict):
    """spec (plain values) -> (kwargs for JsonLogWriter.write, expected parsed values)."""
    deal = scen.deal_from_seed(spec['deal']) if not isinstance(spec['deal'], dict) else {s: frozenset(v) for s, v in spec['deal'].items()}
    hands = adapt.hands_obj(deal)
    con = spec['contract']
    vul = adapt.VUL[spec['vul']]
    if con in ('passout-none', 'passout-pass'):
        contract = Contract(final_bid=None if con == 'passout-none' else Bid.Pass, vul=vul, declarer=None)
        declarer = None
        play = None
        exp_play = None
        taken = None
        exp_con = None
    else:
        bid, dbl = con
        declarer = spec['declarer']
        if spec.get('flags') == 'xx-only' and dbl == 2:
            contract = Contract(final_bid=adapt.call_obj(bid), x=False, xx=True, vul=vul, declarer=adapt.PL[declarer])
        else:
            contract = adapt.mk_contract(bid, dbl, spec['vul'], declarer)
        play = PlayingHistory(contract)
        tl = trick_list(deal, spec['tricks'])
        for t, (ld, cs) in enumerate(tl, 1):
            play.record(t, TrickHistory(adapt.PL[ld], tuple(adapt.CARDS[c] for c in cs)))
            if t % 4 == 1:
                play.history            # a look at the history while the play is still going on (a live display, a snapshot log)
        exp_play = [(ld, tuple(cs)) for ld, cs in tl]
        taken = spec['taken']
        exp_con = (bid, dbl)
    auc = AUCTIONS[spec['auction']]
    if auc is None:
        auc = max_auction()
    dda = scen.dda_from_seed(spec['deal']) if spec['dda'] else None
    n, e, s, w = spec['names']
    kw = dict(board_id=spec['id'], west_player=w, north_player=n, east_player=e, south_player=s, dealer=adapt.PL[spec['dealer']],
              deal=hands, scoring=Scoring[spec['scoring']], bid_history=[adapt.call_obj(c) for c in auc], contract=contract,
              play_history=play, taken_trick_num=taken, scores={Pair.NS: spec['scores'][0], Pair.EW: spec['scores'][1]},
              dda=None if dda is None else {Player[p]: {Suit[k]: v for k, v in r.items()} for p, r in dda.items()})
    exp = {'board_id': spec['id'], 'players': {'N': n, 'E': e, 'S': s, 'W': w}, 'dealer': spec['dealer'], 'vul': spec['vul'],
           'deal': {k: frozenset(v) for k, v in deal.items()}, 'auction': list(auc), 'contract': exp_con, 'declarer': declarer,
           'play': exp_play, 'taken': taken, 'score_type': Scoring[spec['scoring']].value, 'scores': {'NS': spec['scores'][0], 'EW': spec['scores'][1]},
           'dda': dda}
    return kw, exp


# ---- schema -------------------------------------------------------------------------------------------------------
_VALIDATOR = None


def validator():
    global _VALIDATOR
    if _VALIDATOR is None:
        import jsonschema
        from referencing import Registry, Resource
        from referencing.jsonschema import DRAFT7
        with open(os.path.join(SCHEMA_DIR, 'log_format.schema.json')) as f:
            log_schema = json.load(f)
        with open(os.path.join(SCHEMA_DIR, 'board_setting_format.schema.json')) as f:
            bs_schema = json.load(f)
        reg = Registry().with_resources([('board_setting_format.schema.json', Resource.from_contents(bs_schema, default_specification=DRAFT7)),
                                         ('log_format.schema.json', Resource.from_contents(log_schema, default_specification=DRAFT7))])
        jsonschema.Draft7Validator.check_schema(log_schema)
        jsonschema.Draft7Validator.check_schema(bs_schema)
        _VALIDATOR = (jsonschema.Draft7Validator(log_schema, registry=reg), jsonschema.Draft7Validator(bs_schema, registry=reg))
    return _VALIDATOR


# ---- oracle -------------------------------------------------------------------------------------------------------

def is_enum(v, cls) -> bool:
    return isinstance(v, cls)


def compare_log(i: int, got, exp: dict) -> List[tuple]:
    """[(field, message)] differences between a parsed BoardLog and the expected plain values."""
    out = []

    def bad(field, msg):
        out.append((field, f'record {i}: {msg}'))
    if got.board_id != exp['board_id']:
        bad('board_id', f'board_id {got.board_id!r} != written {exp["board_id"]!r}')
    if not (isinstance(got.players, dict) and all(isinstance(k, Player) for k in got.players)
            and {k.name: v for k, v in got.players.items()} == exp['players']):
        bad('players', f'players {got.players!r} != written {exp["players"]!r} (keys must be Player objects)')
    if not (isinstance(got.dealer, Player) and got.dealer.name == exp['dealer']):
        bad('dealer', f'dealer {got.dealer!r} != {exp["dealer"]}')
    if not (isinstance(got.vul, Vul) and adapt.VUL_NAME[got.vul] == exp['vul']):
        bad('vul', f'vulnerability {got.vul!r} != {exp["vul"]}')
    try:
        hi = adapt.hands_ints(got.hands)
    except Exception as e:  # noqa
        hi = repr(e)
    if hi != exp['deal']:
        bad('deal', f'deal read back differs from the deal written')
    bh = got.bid_history
    if not (isinstance(bh, list) and all(isinstance(b, Bid) for b in bh) and [str(b) for b in bh] == exp['auction']):
        bad('bid_history', f'auction read back as {bh!r}'[:300] + f', written {exp["auction"][:12]}')
    c = got.contract
    if not isinstance(c, Contract):
        bad('contract', f'contract is {c!r}')
    elif exp['contract'] is None:
        if not (c.is_passed_out() and c.declarer is None and adapt.VUL_NAME.get(c.vul) == exp['vul']):
            bad('contract', f'passed-out board read back with contract {c!r}')
    else:
        gotc = (None if c.is_passed_out() else str(c.final_bid), adapt.doubling_status(c), c.declarer.name if isinstance(c.declarer, Player) else c.declarer,
                adapt.VUL_NAME.get(c.vul))
        want = (exp['contract'][0], exp['contract'][1], exp['declarer'], exp['vul'])
        if gotc != want:
            bad('contract', f'contract (bid, doubling status, declarer, vul) read back as {gotc}, written {want}')
    if exp['declarer'] is None:
        if got.declarer is not None:
            bad('declarer', f'declarer {got.declarer!r} on a passed-out board')
    elif not (isinstance(got.declarer, Player) and got.declarer.name == exp['declarer']):
        bad('declarer', f'declarer {got.declarer!r} != {exp["declarer"]}')
    if exp['play'] is None:
        if got.play_history is not None:
            bad('play_history', f'play history {got.play_history!r} on a board without play')
    else:
        ph = got.play_history
        if not isinstance(ph, list) or len(ph) != len(exp['play']):
            bad('play_history', f'{len(ph) if isinstance(ph, list) else ph!r} tricks read back, {len(exp["play"])} written')
        else:
            for t, (tr, (ld, cs)) in enumerate(zip(ph, exp['play']), 1):
                if not isinstance(tr, TrickHistory):
                    bad('play_history', f'trick {t} is {tr!r}')
                    break
                if not isinstance(tr.leader, Player) or tr.leader.name != ld:
                    bad('play_history.leader', f'trick {t}: leader read back as {tr.leader!r} ({type(tr.leader).__name__}), written Player.{ld}')
                    break
                if not (isinstance(tr.cards, tuple) and all(isinstance(x, Card) for x in tr.cards) and tuple(adapt.card_int(x) for x in tr.cards) == cs):
                    bad('play_history.cards', f'trick {t}: cards read back as {tr.cards!r}')
                    break
    if got.taken_trick != exp['taken'] or isinstance(got.taken_trick, bool):
        bad('taken_trick', f'taken_trick {got.taken_trick!r} != {exp["taken"]!r}')
    if got.score_type != exp['score_type']:
        bad('score_type', f'score_type {got.score_type!r} != {exp["score_type"]!r}')
    sc = got.scores
    if not (isinstance(sc, dict) and all(isinstance(k, Pair) for k in sc) and {k.name: v for k, v in sc.items()} == exp['scores']):
        bad('scores', f'scores read back as {sc!r}, written {{Pair.NS: {exp["scores"]["NS"]}, Pair.EW: {exp["scores"]["EW"]}}} (keys must be Pair objects)')
    if exp['dda'] is None:
        if got.dda is not None:
            bad('dda', f'dda {got.dda!r} although none was written')
    else:
        d = got.dda
        ok = isinstance(d, dict) and all(isinstance(p, Player) and isinstance(r, dict) and all(isinstance(s, Suit) for s in r) for p, r in d.items())
        if not ok or {p.name: {s.name: v for s, v in r.items()} for p, r in d.items()} != exp['dda']:
            bad('dda', f'double-dummy table read back as {d!r}'[:300])
    return out


def compare_setting(i: int, got, exp: dict) -> List[tuple]:
    out = []
    if got.board_id != exp['board_id'] or not isinstance(got.dealer, Player) or got.dealer.name != exp['dealer'] \
            or adapt.VUL_NAME.get(got.vul) != exp['vul'] or adapt.hands_ints(got.hands) != exp['deal']:
        out.append(('setting', f'board {i} as a board setting: id/dealer/vul/deal = {got.board_id!r}/{got.dealer}/{got.vul}, written '
                               f'{exp["board_id"]!r}/{exp["dealer"]}/{exp["vul"]}'))
    if exp['dda'] is None:
        if got.dda is not None:
            out.append(('setting.dda', f'board {i}: dda {got.dda!r} although none was written'))
    elif got.dda is None or {p.name: {s.name: v for s, v in r.items()} for p, r in got.dda.items()} != exp['dda']:
        out.append(('setting.dda', f'board {i}: double-dummy table of the setting differs'))
    return out


def run_reuse(first: List[dict], second: List[dict], mode: str, c: Counter):
    """History on ONE writer object: document 1 (open, write*, close), the stream is emptied, document 2.  Document 2 is judged."""
    buf = io.StringIO()
    w = JsonLogWriter(buf)
    rp = {'kind': 'doc', 'specs': second, 'mode': mode, 'before': first}
    try:
        for part in (first, second):
            buf.seek(0)
            buf.truncate()
            if mode == 'with':
                with w:
                    for sp in part:
                        w.write(**build(sp)[0])
            else:
                w.open()
                for sp in part:
                    w.write(**build(sp)[0])
                w.close()
    except Exception as e:  # noqa
        c.violate('reuse:raise', f'one writer object used for two documents in a row raised {type(e).__name__}: {e}', rp)
        return
    c.inc('writer_reuse_histories')
    judge_text(buf.getvalue(), second, [build(sp) for sp in second], c, 'second-document-of-one-writer', rp)


LEAVING = {'RuntimeError': RuntimeError, 'KeyboardInterrupt': KeyboardInterrupt, 'SystemExit': SystemExit, 'GeneratorExit': GeneratorExit}


def run_doc(specs: List[dict], mode: str, c: Counter, tag: str):
    """One document: the operation sequence on the real writer, then every oracle."""
    rp = {'kind': 'doc', 'specs': specs, 'mode': mode}
    built_all = [(build(s), bool(s.get('reject'))) for s in specs]
    sink = specs[0].get('sink') if specs else None
    raw = io.BytesIO() if sink else None
    buf = io.TextIOWrapper(raw, encoding=sink, newline='') if sink else io.StringIO()

    def do_writes(w):
        for (kw, _), rej in built_all:
            if not rej:
                w.write(**kw)
                continue
            # a record the serialiser cannot represent: the write must be refused and leave the document untouched
            kw = dict(kw, scores={Pair.NS: Unserialisable(), Pair.EW: 0})
            try:
                w.write(**kw)
            except Exception:  # noqa
                c.inc('rejected_writes')
            else:
                raise _Accepted()
    try:
        if mode.startswith('left:'):
            # the `with` block is left by an exception after the writes (a crash, the operator's Ctrl-C, sys.exit, a generator torn down):
            # what was written is still "a sequence of board results written by the log writer"
            exc = LEAVING[mode[5:]]
            try:
                with JsonLogWriter(buf) as w:
                    do_writes(w)
                    raise exc('the block is left')
            except exc:
                c.inc('with_blocks_left_by_an_exception')
        elif mode == 'with':
            with JsonLogWriter(buf) as w:
                do_writes(w)
        else:
            w = JsonLogWriter(buf)
            w.open()
            do_writes(w)
            w.close()
    except _Accepted:
        return          # the writer accepted the odd value: nothing to compare against
    except Exception as e:  # noqa
        c.violate(f'write:{tag}', f'writing {len(specs)} record(s) raised {type(e).__name__}: {e}', rp)
        return
    built = [b for b, rej in built_all if not rej]
    if len(built) != len(specs):
        tag = tag + '-with-rejected-write'
    specs = [s for s in specs if not s.get('reject')]
    if sink:
        tag = tag + '-' + sink + '-file'
        try:
            buf.flush()
            text_from_bytes = raw.getvalue().decode(sink)
        except Exception as e:  # noqa
            c.violate(f'encode:{tag}', f'the bytes written to a {sink} file cannot be read back as text: {e}', rp)
            return
    text = text_from_bytes if sink else buf.getvalue()
    judge_text(text, specs, built, c, tag, rp)


def judge_text(text: str, specs, built, c: Counter, tag: str, rp: dict):
    c.inc('evals')
    c.inc('documents')
    c.inc('records', len(specs))
    try:
        doc = json.loads(text)
    except Exception as e:  # noqa
        c.violate(f'json:{tag}:k{len(specs)}', f'the text written for {len(specs)} record(s) is not one JSON document: {e}; text starts {text[:80]!r} ends {text[-40:]!r}', rp)
        return
    if not (isinstance(doc, dict) and list(doc) == ['logs'] and isinstance(doc['logs'], list) and len(doc['logs']) == len(specs)):
        c.violate(f'shape:{tag}:k{len(specs)}', f'document shape: keys {list(doc)[:3]}, {len(doc.get("logs", [])) if isinstance(doc, dict) else "?"} records for {len(specs)} written', rp)
        return
    v_log, _ = validator()
    errs = sorted(v_log.iter_errors(doc), key=lambda e: list(e.absolute_path))
    for e in errs[:3]:
        path = [p for p in e.absolute_path if not isinstance(p, int)]
        c.violate(f'schema:{"/".join(map(str, path))}', f'the log does not conform to log_format.schema.json at {list(e.absolute_path)}: {e.message[:160]}', rp)
    try:
        logs = JsonParser().parse_board_logs(io.StringIO(text))
    except Exception as e:  # noqa
        c.violate(f'parse:{tag}', f'parse_board_logs raised {type(e).__name__}: {e}', rp)
        logs = None
    if logs is not None:
        if len(logs) != len(specs):
            c.violate(f'count:{tag}', f'{len(logs)} records read back, {len(specs)} written', rp)
        for i, (g, (_, exp)) in enumerate(zip(logs, built)):
            for field, msg in compare_log(i, g, exp):
                c.violate(f'field:{field}', msg, rp)
    try:
        sets = JsonParser().parse_board_settings(io.StringIO(text))
    except Exception as e:  # noqa
        c.violate(f'settings:{tag}', f'parse_board_settings on the log raised {type(e).__name__}: {e}', rp)
        sets = None
    if sets is not None:
        if len(sets) != len(specs):
            c.violate(f'settings-count:{tag}', f'{len(sets)} board settings read from a log of {len(specs)} records', rp)
        for i, (g, (_, exp)) in enumerate(zip(sets, built)):
            for field, msg in compare_setting(i, g, exp):
                c.violate(f'field:{field}', msg, rp)
    c.see('cls', (tag, len(specs)))


class Unserialisable:
    pass


class _Accepted(Exception):
    pass


# ---- enumeration --------------------------------------------------------------------------------------------------

def one_factor_specs(seed: int) -> List[tuple]:
    """(tag, spec): each field exhaustive over its menu, the others at defaults."""
    out = []
    base = default_spec(seed)

    def var(tag, **kw):
        s = dict(base)
        s.update(kw)
        out.append((tag, s))
    for bid in RA.BIDS:
        for dbl in (0, 1, 2):
            var('contract', contract=[bid, dbl], declarer=SEATS[(RA.BIDS.index(bid) + dbl) % 4])
    var('contract-xxflag', contract=['3NT', 2], flags='xx-only')
    for po in ('passout-none', 'passout-pass'):
        for v in VULS:
            var('passedout', contract=po, vul=v, auction=1, scores=[0, 0])
    for d, v, dl in itertools.product(SEATS, VULS, SEATS):
        var('seat-vul-dealer', declarer=d, vul=v, dealer=dl)
    for a in range(len(AUCTIONS)):
        var('auction', auction=a)
    for t in range(14):
        var('tricks', tricks=t, taken=t)
    for dda in (False, True):
        for po in (['2H', 1], 'passout-none'):
            var('dda', dda=dda, contract=po)
    for nm in NAMES:
        var('name', names=[nm, 'Beta', nm, 'Beta'])
        var('name', names=['Alpha', nm, 'Alpha', nm])
        var('name', names=[nm, nm + 'x', nm + 'y', nm + 'z'])
        var('id', id=nm)
    for nm in NAMES:
        var('name', names=[nm, 'Beta', nm + 'é', 'Beta'], id=nm, sink='utf-8')
    for sc in Scoring:
        var('scoring', scoring=sc.name)
    for ns in (0, -50, 7600, -7600, 10 ** 12):
        var('scores', scores=[ns, -ns])
    for k in range(8):
        var('deal', deal=seed * 100 + k)
    return out


def pool(seed: int) -> List[dict]:
    """Small pool of structurally different records for the multi-record documents."""
    b = default_spec
    p = []
    s = b(seed + 1); p.append(s)
    s = dict(b(seed + 2), contract='passout-none', auction=1, scores=[0, 0], vul='Both', dealer='W'); p.append(s)
    s = dict(b(seed + 3), contract=['7NT', 2], declarer='W', vul='EW', dda=True, tricks=13, taken=13, scores=[-2980, 2980], id='x"y', auction=4); p.append(s)
    s = dict(b(seed + 4), contract=['4S', 1], declarer='S', tricks=0, taken=0, names=['', '\ud800', '', '\ud800'], id=''); p.append(s)
    s = dict(b(seed + 5), contract='passout-pass', auction=1, scores=[0, 0], dda=True, id=']}'); p.append(s)
    return p


def unit(args):
    kind, payload = args
    c = Counter()
    if kind == 'single':
        for tag, spec in payload:
            run_doc([spec], 'manual', c, tag)
    elif kind == 'docs':
        for mode, specs in payload:
            if isinstance(specs, tuple):
                run_reuse(specs[0], specs[1], mode, c)
            else:
                run_doc(specs, mode, c, f'seq-{mode}')
    return c


def run(tier, seed, workers):
    singles = one_factor_specs(seed)
    pl = pool(seed)
    docs = [('manual', []), ('with', [])]
    docs += [(m, [a]) for a in pl for m in ('manual', 'with')]
    docs += [('manual' if (i + j) % 2 else 'with', [a, b]) for i, a in enumerate(pl) for j, b in enumerate(pl)]
    triples = list(itertools.product(range(len(pl)), repeat=3))
    docs += [('with', [pl[i], pl[j], pl[k]]) for i, j, k in triples]
    # fault: a write that the serialiser refuses, at every position of sequences of length 1..3 (the accepted records must still form the document)
    rej = dict(default_spec(seed + 9), reject=True)
    for n in (0, 1, 2):
        for pos in range(n + 1):
            for m in ('manual', 'with'):
                seq = [pl[(pos + i) % len(pl)] for i in range(n)]
                docs.append((m, seq[:pos] + [rej] + seq[pos:]))
    docs.append(('manual', [rej, rej, pl[0], rej]))
    # the with-block left by an exception after 0..3 records (ordinary and non-Exception ones), also after a refused write
    for k, exc in enumerate(LEAVING):
        for n in (0, 1, 2, 3):
            docs.append((f'left:{exc}', [pl[(k + i) % len(pl)] for i in range(n)]))
        docs.append((f'left:{exc}', [pl[k % len(pl)], rej]))
    # records that share a board id are still separate records (a second round, a replay at another table)
    same = [dict(pl[0], id='1'), dict(pl[2], id='2'), dict(pl[3], id='1', dealer='S', vul='Both', dda=True), dict(pl[1], id='1'), dict(pl[0], id='2', deal=seed + 77)]
    docs.append(('with', same))
    docs.append(('manual', same[::2]))
    docs.append(('with', [same[3], same[0]]))
    # one writer object used for two documents in a row
    for m in ('manual', 'with'):
        for a, b in (([], [pl[0]]), ([pl[1]], [pl[0], pl[2]]), ([pl[0], pl[2]], []), ([pl[3]], [pl[4]])):
            docs.append((m, (a, b)))
    if True:
        # all combinations of the small menus on one record (quick: a sub-product; thorough: every contract as well)
        extra = []
        base = default_spec(seed)
        for (bid, dbl), d, v, t, dda in itertools.product([('1C', 0), ('3NT', 1), ('7NT', 2), ('5D', 2)], SEATS, VULS, (0, 1, 13), (False, True)):
            extra.append(('pairs', dict(base, contract=[bid, dbl], declarer=d, vul=v, tricks=t, taken=t, dda=dda)))
        for nm, idn in itertools.product(NAMES, NAMES):
            extra.append(('name-id', dict(base, names=[nm, 'B', nm, 'B'], id=idn)))
        if tier == 'thorough':
            for bid in RA.BIDS:
                for dbl, d, v, t in itertools.product((0, 1, 2), SEATS, VULS, (0, 7, 13)):
                    extra.append(('contract-product', dict(base, contract=[bid, dbl], declarer=d, vul=v, tricks=t, taken=t, dealer=SEATS[(t + dbl) % 4], dda=bool(dbl % 2))))
            for po, v, dl, dda, a in itertools.product(('passout-none', 'passout-pass'), VULS, SEATS, (False, True), (0, 1)):
                extra.append(('passedout-product', dict(base, contract=po, vul=v, dealer=dl, dda=dda, auction=a, scores=[0, 0])))
        singles += extra
    n = max(1, workers)
    units = [('single', singles[i::n]) for i in range(n)] + [('docs', docs[i::n]) for i in range(n)]
    tot = merge_all(pmap(unit, units, workers))
    nd = tot.get('documents')
    cov = {
        'states': nd, 'transitions': tot.get('records') + 2 * nd, 'traces_validated_against_impl': nd,
        'evaluations': nd, 'distinct_nontrivial': tot.distinct('cls'), 'documents': nd, 'records_written': tot.get('records'), 'refused_writes_injected': tot.get('rejected_writes'),
        'rule': 'operation sequences open, write^k, close (k = 0..3; manual and context-manager) of JsonLogWriter on an in-memory stream; records: '
                'all 105 bid x doubling contracts + both passed-out encodings x 4 vul, 4 declarers x 4 vul x 4 dealers, auction menu (empty .. 319 calls), '
                '0..13 recorded tricks, dda on/off, names and ids over a Unicode menu (empty, quote, backslash, newline, tab, non-BMP, lone surrogate, U+2028, '
                'JSON-looking text), every Scoring value, extreme scores; ordered pairs and triples of a 5-record pool; a refused write (unserialisable value) injected at every position of sequences of length <= 3; records that share a board id but differ in content; every name also through a UTF-8 encoded file object (as the server writes it); oracles: json.loads, Draft-7 validation '
                'against the shipped log schema (cross-file $ref via a registry), parse_board_logs field by field as value objects, parse_board_settings on the same text',
        'samples': [{'k': 2, 'records': ['7NTXX by W, 13 tricks, dda, id x"y', 'passed out, id ]}']}, {'k': 0, 'text': '{"logs": [\n]}'},
                    {'k': 1, 'names': ['', '\\ud800', '', '\\ud800'], 'contract': '4SX', 'tricks': 0}],
        'exhaustive': True,
        'explanation': 'exhaustive over the stated menus and sequence lengths; arbitrary Unicode and arbitrary auctions are represented by the menus',
    }
    return Result(cov, tot.violations, ['contracts are compared by level, denomination, doubling status, vulnerability and declarer, not by raw x/xx flags',
                                         'a passed-out contract is written with no declarer'])


def replay(d):
    c = Counter()
    if 'before' in d:
        run_reuse(d['before'], d['specs'], d['mode'], c)
    else:
        run_doc(d['specs'], d['mode'], c, 'replay')
    return bool(c.violations), '\n'.join(f'{v.key}: {v.message}' for v in c.violations) or 'all oracles satisfied'
