"""Session scenarios for the Engine-B checks, described by JSON-serialisable specs so that replay files can rebuild them.

spec = {'boards': [{'id', 'dealer', 'vul', 'deal': seed | 'longsuits:<seed>', 'auction': [...], 'policy': name,
                    'dda': bool}], 'teams': {'NS','EW'}, 'notations': {seat: [card, case, alert, blanks]},
        'sequential': bool}
"""
from __future__ import annotations

import random
from typing import Dict, List, Optional

from ..ref import protocol as P

SEATS = 'NESW'


def deal_from_seed(seed) -> Dict[str, frozenset]:
    if isinstance(seed, str) and seed.startswith('onesuit:'):
        # every seat holds one complete suit (seat i holds suit (i + rot) % 4): results of 0 and 13 tricks, a ruff on every trick
        rot = int(seed.split(':')[1])
        return {s: frozenset(range(((i + rot) % 4) * 13, ((i + rot) % 4) * 13 + 13)) for i, s in enumerate(SEATS)}
    r = random.Random(f'deal-{seed}')
    cs = list(range(52))
    r.shuffle(cs)
    return {s: frozenset(cs[i * 13:(i + 1) * 13]) for i, s in enumerate(SEATS)}


def dda_from_seed(seed):
    r = random.Random(f'dda-{seed}')        # (a str seed such as 'onesuit:2' is fine too)
    return {p: {s: r.randrange(14) for s in ('C', 'D', 'H', 'S', 'NT')} for p in SEATS}


# name -> (dealer-relative auction builder).  Calls are given for dealer = first caller.
AUCTIONS = {
    'passout': ['Pass'] * 4,
    'open1C': ['1C', 'Pass', 'Pass', 'Pass'],                               # declarer = dealer
    'second': ['Pass', '1NT', 'Pass', 'Pass', 'Pass'],                     # declarer = 2nd seat
    'third': ['Pass', 'Pass', '2H', 'Pass', 'Pass', 'Pass'],               # 3rd seat
    'fourth': ['Pass', 'Pass', 'Pass', '1S', 'Pass', 'Pass', 'Pass'],      # 4th seat re-opens
    'doubled': ['1D', 'X', 'Pass', 'Pass', 'Pass'],
    'redoubled': ['1H', 'X', 'XX', 'Pass', 'Pass', 'Pass'],
    'partner_first': ['1H', 'Pass', '4H', 'Pass', 'Pass', 'Pass'],         # last bidder is not declarer
    'superseded': ['1C', 'X', '1D', 'Pass', 'Pass', 'Pass'],               # earlier double superseded
    'both_sides': ['1S', '2S', 'Pass', 'Pass', 'X', 'Pass', 'Pass', 'Pass'],   # both sides named spades; late double
    'slam': ['2C', 'Pass', '7NT', 'X', 'XX', 'Pass', 'Pass', 'Pass'],
    'competitive': ['1C', '1D', '1H', '1S', '1NT', 'Pass', 'Pass', 'X', 'Pass', 'Pass', 'Pass'],
    'rebid_after_double': ['1H', 'X', '2H', 'Pass', 'Pass', 'Pass'],               # the doubled side raises its own strain: the double is gone
    'rebid_after_redouble': ['1C', 'X', 'XX', '1S', '2C', 'Pass', 'Pass', 'Pass'],
    'opponents_named_first': ['1H', '2H', 'Pass', '3H', 'Pass', 'Pass', 'Pass'],    # the defenders named the final strain first
    'same_round_partners': ['Pass', '1S', 'Pass', '2S', 'Pass', 'Pass', 'Pass'],    # both partners name the strain in one round
}


def board(i: int, auction: str, dealer: str = 'N', vul: str = 'None', deal=None, policy: str = 'lowest_legal', dda=False,
          bid: Optional[str] = None) -> dict:
    return {'id': bid if bid is not None else f'b{i}', 'dealer': dealer, 'vul': vul, 'deal': i if deal is None else deal,
            'auction': auction, 'policy': policy, 'dda': dda}


def mk_spec(boards: List[dict], teams=None, notations=None, sequential=False, linger=False, fragment=None) -> dict:
    """linger: clients stay connected after End of session; fragment='crlf': the network delivers every message in two pieces, the
    second being the final LF (a read never crosses that boundary)."""
    d = {'boards': boards, 'teams': teams or {'NS': 'Alpha', 'EW': 'Beta'}, 'notations': notations or {},
         'sequential': sequential}
    if linger:
        d['linger'] = True
    if fragment:
        d['fragment'] = fragment
    return d


def plans_of(spec: dict) -> List[P.BoardPlan]:
    out = []
    for b in spec['boards']:
        auc = AUCTIONS[b['auction']] if isinstance(b['auction'], str) else b['auction']
        out.append(P.BoardPlan(b['id'], b['dealer'], b['vul'], deal_from_seed(b['deal']), auc, policy=b.get('policy', 'lowest_legal'),
                               dda=dda_from_seed(b['deal']) if b.get('dda') else None))
    return out


def notations_of(spec: dict) -> Dict[str, P.Notation]:
    return {s: P.Notation(*v) for s, v in spec.get('notations', {}).items()}


def name_of(spec: dict) -> str:
    if spec.get('label'):
        return spec['label']
    bs = '+'.join(f"{b['auction'] if isinstance(b['auction'], str) else 'custom'}/{b['dealer']}/{b['vul']}" for b in spec['boards'])
    return bs + ('/seq' if spec.get('sequential') else '') + ('/linger' if spec.get('linger') else '') + (f"/frag-{spec['fragment']}" if spec.get('fragment') else '') + ('/existing-output' if spec.get('existing_output') else '') + ('/+second-table' if spec.get('second_table') else '') + ('/plain-seats' if spec.get('plain_seats') else '')
