"""C13 - an aborted session still leaves a well-formed log of the completed boards.

Fault enumeration on the real Server.run + PlayerThread.run under the virtual scheduler:
 * client offences: for a session of n boards, at board k, at EVERY call position j of the scripted auction / card position j of the
   play, the seat whose turn it is sends an offending message instead (insufficient bid, inadmissible double / redouble, unparseable
   call, level 0 / 8, another seat's name, gibberish; unparseable card, card held by another seat, card already played, gibberish);
 * operator interrupt: KeyboardInterrupt raised in the main thread in place of each of its synchronisation operations from the first
   deal of board 1 to the end of the session.
Oracle: Server.run raised; the output file object is closed; its text is one JSON document, schema-valid, holding exactly the reference
records of the boards finished before the abort (for an interrupt that falls between the receipt of a board's last call/card and the
hand-off that follows the record, either with or without that board)."""
from __future__ import annotations

import json
from typing import Dict, List, Optional, Tuple

from ..core import Counter, Result, merge_all, pmap
from ..ref import auction as RA
from ..ref import play as RP
from ..ref import protocol as P
from ..sched import explore, prims, session, world
from . import scen
from .C12 import validator

TAG = 'C13'
F = P.FORMAL
CALL_OFFENCES = ['insufficient', 'bad-double', 'bad-redouble', 'unparseable', 'level0', 'level8', 'other-seat-name', 'gibberish']
CARD_OFFENCES = ['unparseable-card', 'not-held', 'already-played', 'gibberish']


def offending_call(plan: P.BoardPlan, j: int, kind: str) -> Optional[str]:
    a = RA.seat_at(plan.dealer, j)
    hist = plan.auction[:j]
    legal = RA.legal(hist, plan.dealer)
    lb = RA.last_bid_index(hist)
    if kind == 'insufficient':
        if lb is None:
            return None
        return f'{F[a]} bids {hist[lb]}'                       # repeats the last bid: not higher
    if kind == 'bad-double':
        return None if 'X' in legal else f'{F[a]} doubles'
    if kind == 'bad-redouble':
        return None if 'XX' in legal else f'{F[a]} redoubles'
    if kind == 'unparseable':
        return f'{F[a]} bids 1X'
    if kind == 'level0':
        return f'{F[a]} bids 0C'
    if kind == 'level8':
        return f'{F[a]} bids 8NT'
    if kind == 'other-seat-name':
        return f'{F[RP.nxt(a)]} passes'
    if kind == 'gibberish':
        return 'hello'
    raise ValueError(kind)


def offending_card(plan: P.BoardPlan, n: int, kind: str) -> Optional[str]:
    bid, dbl, decl = plan.contract
    b = RP.Board(decl, P.trump_of(bid))
    hands = {s: set(plan.deal[s]) for s in P.SEATS}
    for c in plan.play[:n]:
        hands[b.active].discard(c)
        b.play(c)
    s = b.active
    if kind == 'unparseable-card':
        return f'{F[s]} plays ZZ'
    if kind == 'gibberish':
        return 'I play my best card'
    if kind == 'not-held':
        other = next((x for x in (RP.nxt(s), RP.partner(s), RP.nxt(RP.partner(s))) if hands[x]), None)
        if other is None:
            return None
        return f'{F[s]} plays {P.DEFAULT_NOTATION.card_text(min(hands[other]))}'
    if kind == 'already-played':
        if n == 0:
            return None
        return f'{F[s]} plays {P.DEFAULT_NOTATION.card_text(plan.play[0])}'
    raise ValueError(kind)


def controller_at(plan: P.BoardPlan, phase: str, j: int) -> str:
    """Seat whose connection sends the j-th call / card."""
    if phase == 'call':
        return RA.seat_at(plan.dealer, j)
    bid, dbl, decl = plan.contract
    b = RP.Board(decl, P.trump_of(bid))
    for c in plan.play[:j]:
        b.play(c)
    return decl if b.active == b.dummy else b.active


def offence_clients(plans: List[P.BoardPlan], teams, k: int, phase: str, j: int, text: str) -> List[session.ClientSpec]:
    """Conforming, lenient peers; the offender's script departs at (board k, phase, j) with `text` and then lingers."""
    off = controller_at(plans[k - 1], phase, j)
    scripts, _ = P.build_session(plans, teams)
    out = []
    for p in P.SEATS:
        if p != off:
            out.append(session.ClientSpec(f'cl-{p}', p, scripts[p], lenient=True))
            continue
        it = P.admission_conversation(p, teams, P.DEFAULT_NOTATION)
        for b in range(1, k):
            it += P.board_conversation(p, b, plans[b - 1], P.DEFAULT_NOTATION)
        it += P.board_conversation_before(p, k, plans[k - 1], P.DEFAULT_NOTATION, (phase, j))
        # a lead prompt may precede the offender's card
        marked = P.board_conversation_marked(p, k, plans[k - 1], P.DEFAULT_NOTATION)
        own = [x for x, m in marked if m == (phase, j)]
        if own and own[0][0] == 'recv' and own[0][1] == 'lead':
            it.append(own[0])
        it.append(('send', text))
        it.append(('linger',))
        out.append(session.ClientSpec(f'cl-{p}', p, it, lenient=True))
    return out


def judge(x: world.Execution, plans, teams, allowed: List[int], c: Counter, rp: dict, what: str):
    """allowed = admissible numbers of boards in the log (each a prefix of the configured list)."""
    e = x.extra
    c.inc('judged')
    c.see('status', x.status)
    if e.get('main_exc') is None:
        if x.status == 'complete':
            c.inc('no_abort')
            c.see('no_abort_kinds', what)
            return
        # the table manager neither played the session to its end nor stopped: no thread can take another step, so the session IS
        # abandoned - and whatever is in the output file now is all there will ever be
        c.violate(f'C13:stuck:{what.split(":")[0]}', f'{what}: the table manager neither finished the session nor stopped: no thread can take another step '
                                                     f'({x.status}: {str(x.detail)[:300]}), so the output file is never completed', rp)
        return
    c.inc('aborts')
    c.see('abort_exc', type(e['main_exc']).__name__)
    txt = e.get('log_text')
    if txt is None:
        c.violate(f'C13:no-file:{what}', f'{what}: the session was aborted ({e["main_exc"]!r}) and no output file exists', rp)
        return
    if not e.get('log_closed'):
        c.violate(f'C13:not-closed:{what.split(":")[0]}', f'{what}: the session was aborted ({e["main_exc"]!r}) and the output file was left open', rp)
    try:
        doc = json.loads(txt)
        recs = doc['logs']
    except Exception as ex:  # noqa
        c.violate(f'C13:unparseable:{what.split(":")[0]}', f'{what}: after the abort ({e["main_exc"]!r}) the output file is not a JSON document: {ex}; '
                                                            f'it starts {txt[:40]!r} and ends {txt[-30:]!r}', rp)
        return
    for err in list(validator()[0].iter_errors(doc))[:2]:
        c.violate(f'C13:schema:{what.split(":")[0]}', f'{what}: the log left by the abort does not conform to the schema: {err.message[:120]}', rp)
    exp_all = [pl.log_record(teams) for pl in plans]
    ok = any(recs == exp_all[:m] for m in allowed)
    if not ok:
        c.violate(f'C13:boards:{what.split(":")[0]}:{len(recs)}-for-{"/".join(map(str, allowed))}',
                  f'{what}: the log holds {len(recs)} record(s) (ids {[r.get("board_id") for r in recs]}); finished before the abort were '
                  f'{" or ".join(str(m) for m in allowed)} board(s), each of which must be recorded whole', rp)
    c.see('kept', (len(recs), len(plans)))


def run_offence(item) -> Counter:
    spec, k, phase, j, kind = item
    c = Counter()
    plans = scen.plans_of(spec)
    plan = plans[k - 1]
    text = offending_call(plan, j, kind) if phase == 'call' else offending_card(plan, j, kind)
    if text is None:
        c.inc('not_applicable')
        return c
    clients = offence_clients(plans, spec['teams'], k, phase, j, text)
    rp = {'kind': 'abort', 'spec': spec, 'abort': ['offence', k, phase, j, kind]}
    x = world.execute(session.scripted_setup(plans, clients), prims.Policy(), horizon=2_000_000)
    if x.status == 'internal':
        raise prims.InternalError(str(x.detail))
    c.inc('executions')
    c.inc('steps', x.nsteps)
    judge(x, plans, spec['teams'], [k - 1], c, rp, f'{kind}:board {k} of {len(plans)}, {phase} {j + 1}')
    c.see('cls', ('offence', kind, phase, k, len(plans)))
    return c


def interrupt_points(spec) -> Tuple[List[int], List[Tuple[int, int]], int]:
    """Runs the undisturbed session once with operation recording.  Returns (op indices of the main thread from the first deal
    to its last operation, per board (index of the get that receives the board's last call/card, index of the first
    operation after the record), total)."""
    plans = scen.plans_of(spec)
    clients = session.conforming_clients(plans, spec['teams'])
    x = world.execute(session.scripted_setup(plans, clients), prims.Policy(), record_ops=True, horizon=2_000_000)
    if x.status != 'complete':
        raise prims.InternalError(f'undisturbed session did not complete: {x.status} {x.detail}')
    log = x.threads['main']['oplog']
    first = next(i for i, (lbl, res, note) in enumerate(log) if lbl.endswith('.put') and isinstance(note, str) and note.startswith('Board number'))
    bounds = []
    i = first
    for pl in plans:
        last_msg_count = len(pl.auction) + (52 if pl.contract is not None else 0)
        seen = 0
        g = None
        while seen < last_msg_count:
            lbl, res, note = log[i]
            if lbl.endswith('.get'):
                seen += 1
                g = i
            i += 1
        nxt = next(t for t in range(g + 1, len(log)) if log[t][0].endswith('.put') and log[t][2] in ('next board', 'End of session'))
        bounds.append((g, nxt))
        i = nxt
    return [t for t in range(first, len(log)) if log[t][0] != 'exit'], bounds, len(log)


def run_interrupt(item) -> Counter:
    spec, op, bounds = item
    c = Counter()
    plans = scen.plans_of(spec)
    clients = [session.ClientSpec(cs.name, cs.seat, cs.script, lenient=True) for cs in session.conforming_clients(plans, spec['teams'])]
    # boards certainly finished: those whose hand-off operation index <= op ... certainly unfinished: op <= index of the last receipt
    lo = sum(1 for g, nx in bounds if nx <= op)
    hi = sum(1 for g, nx in bounds if g < op)
    rp = {'kind': 'abort', 'spec': spec, 'abort': ['interrupt', op]}
    x = world.execute(session.scripted_setup(plans, clients, inject={'main': {op + 1: KeyboardInterrupt()}}), prims.Policy(), horizon=2_000_000)   # + 1: the thread's operation counter starts at 1 (its 'begin' step)
    if x.status == 'internal':
        raise prims.InternalError(str(x.detail))
    c.inc('executions')
    c.inc('steps', x.nsteps)
    if x.threads['main']['exc'] is None and x.status == 'complete':
        raise prims.InternalError(f'the interrupt at main operation {op} was not delivered: the session ran to its end')
    judge(x, plans, spec['teams'], sorted({lo, hi}), c, rp, f'interrupt:main operation {op}')
    c.see('cls', ('interrupt', lo, hi, len(plans)))
    c.inc('interrupts')
    return c


def session_specs(tier: str, seed: int):
    d4 = 'NESW'
    b = scen.board
    one = scen.mk_spec([b(seed + 1, 'competitive', d4[seed % 4], 'NS', policy='lowest_held', dda=True)])
    two = scen.mk_spec([b(seed + 2, 'passout', d4[(seed + 1) % 4], 'Both'), b(seed + 3, 'redoubled', d4[(seed + 2) % 4], 'EW')])
    three = scen.mk_spec([b(seed + 4, 'second', d4[(seed + 3) % 4], 'None', policy='highest_legal'), b(seed + 5, 'slam', d4[seed % 4], 'Both', dda=True),
                          b(seed + 6, 'passout', 'S', 'NS')], teams={'NS': 'Team "quoted"', 'EW': "O'Neil (2) #1"})
    two_b = scen.mk_spec([b(seed + 7, 'doubled', d4[(seed + 1) % 4], 'EW'), b(seed + 8, 'fourth', d4[(seed + 2) % 4], 'NS', policy='lowest_held')])
    return [one, two, three, two_b]


def items(tier: str, seed: int):
    off, intr = [], []
    specs = session_specs(tier, seed)
    for spec in specs:
        plans = scen.plans_of(spec)
        n = len(plans)
        for k, pl in enumerate(plans, 1):
            for j in range(len(pl.auction)):
                for kind in CALL_OFFENCES:
                    if tier == 'quick' and kind in ('level8', 'gibberish') and j % 2:
                        continue
                    off.append((spec, k, 'call', j, kind))
            if pl.contract is not None:
                cards = range(52) if tier == 'thorough' else sorted({0, 1, 2, 3, 4, 5, 7, 8, 20, 48, 49, 50, 51})
                for j in cards:
                    for kind in CARD_OFFENCES:
                        if tier == 'quick' and kind == 'gibberish' and j not in (0, 51):
                            continue
                        off.append((spec, k, 'card', j, kind))
    for spec in specs[:3] if tier == 'quick' else specs:
        ops, bounds, total = interrupt_points(spec)
        if tier == 'quick':
            near = {g + d for g, nx in bounds for d in range(-3, 8)} | {nx + d for g, nx in bounds for d in (-2, -1, 0, 1)}
            ops = [o for o in ops if o in near or (o - ops[0]) % 9 == 0 or o >= total - 6 or o - ops[0] < 14]
        intr += [(spec, o, bounds) for o in ops]
    return off, intr


def run(tier, seed, workers):
    off, intr = items(tier, seed)
    cs = pmap(run_offence, off, workers, chunksize=4)
    cs += pmap(run_interrupt, intr, workers, chunksize=4)
    # schedule independence of the abort outcome: a few offence scenarios under all schedules with <= 1 deviation
    dev = Counter()
    for it in (off[len(off) // 3], off[-1]):
        spec, k, phase, j, kind = it
        plans = scen.plans_of(spec)
        text = offending_call(plans[k - 1], j, kind) if phase == 'call' else offending_card(plans[k - 1], j, kind)
        if text is None:
            continue

        def factory(plans=plans, spec=spec, k=k, phase=phase, j=j, text=text):
            return session.scripted_setup(plans, offence_clients(plans, spec['teams'], k, phase, j, text))

        def jd(x, c, choices, plans=plans, spec=spec, k=k, phase=phase, j=j, kind=kind):
            judge(x, plans, spec['teams'], [k - 1], c, {'kind': 'abort', 'spec': spec, 'abort': ['offence', k, phase, j, kind], 'choices': list(x.choices)},
                  f'{kind}:board {k} of {len(plans)}, {phase} {j + 1}')
        ctx = explore.Ctx(factory, jd, horizon=2_000_000)
        explore.bounded(ctx, 1 if tier == 'quick' else 2, workers, dev)
    tot = merge_all(cs + [dev])
    ex = tot.get('executions')
    cov = {
        'evaluations': ex, 'distinct_nontrivial': tot.distinct('cls'), 'executions': ex, 'aborted_sessions': tot.get('aborts'),
        'offence_scenarios': len(off), 'offences_not_applicable_at_their_position': tot.get('not_applicable'), 'interrupt_points': tot.get('interrupts'),
        'sessions_not_aborted_by_the_server': tot.get('no_abort'), 'kinds_not_aborted': sorted(tot.sets.get('no_abort_kinds', []))[:10],
        'abort_exception_types': sorted(tot.sets.get('abort_exc', [])), 'execution_outcomes': sorted(tot.sets.get('status', [])),
        'records_kept_vs_boards': sorted(tot.sets.get('kept', [])), 'schedule_executions_on_abort_scenarios': dev.get('executions'),
        'states': tot.get('points') + ex, 'transitions': tot.get('steps') + ex, 'traces_validated_against_impl': ex,
        'rule': 'sessions of 1, 2, 3 and 2 boards (passed-out and played, dda, quoted team names); client offences ' + str(CALL_OFFENCES) + ' at every call position and ' +
                str(CARD_OFFENCES) + (' at every card position 1..52' if tier == 'thorough' else ' at card positions {1-6, 8, 9, 21, 49-52}') + ' of every board, sent by the seat whose turn it is; '
                'KeyboardInterrupt injected in place of ' + ('every' if tier == 'thorough' else 'every 9th, and every one within a window around each board boundary, of the') +
                ' synchronisation operation(s) of the main thread from the first deal to the end; default schedule, plus all schedules with <= d deviations on two offence scenarios; '
                'distinct = (fault kind, phase, board k, n) classes',
        'samples': [{'session': '3 boards', 'abort': 'board 2, card 17: card held by another seat', 'expected log': 'board 1 only'},
                    {'session': '2 boards', 'abort': 'KeyboardInterrupt in place of main operation #212 (a queue get during the play of board 2)', 'expected log': 'board 1'}],
        'exhaustive': tier == 'thorough',
        'explanation': 'every abort point of the stated sessions is enumerated in the thorough tier; interrupts between the two write() calls of one record are deliberately not injected (DESIGN.md 4/C13)',
    }
    viol = [v for v in tot.violations if v.key.startswith(TAG + ':')]
    return Result(cov, viol, ['an interrupt is delivered at a synchronisation operation of the main thread', 'virtual primitives (Engine B)',
                              'the file content is written by the main thread only (schedule independence checked on two scenarios)'], level='fault_enumeration')


def replay(d):
    spec = d['spec']
    ab = d['abort']
    c = Counter()
    if ab[0] == 'offence':
        _, k, phase, j, kind = ab
        if d.get('choices'):
            plans = scen.plans_of(spec)
            text = offending_call(plans[k - 1], j, kind) if phase == 'call' else offending_card(plans[k - 1], j, kind)
            x = world.execute(session.scripted_setup(plans, offence_clients(plans, spec['teams'], k, phase, j, text)), prims.ReplayPolicy(d['choices']), horizon=2_000_000)
            judge(x, plans, spec['teams'], [k - 1], c, d, f'{kind}:board {k}, {phase} {j + 1}')
        else:
            c = run_offence((spec, k, phase, j, kind))
    else:
        _, bounds, _ = interrupt_points(spec)
        c = run_interrupt((spec, ab[1], bounds))
    return bool(c.violations), '\n'.join(f'{v.key}: {v.message}' for v in c.violations) or 'log well-formed'
