"""Adapter boundary between bridge_env value objects and the plain values of the reference models."""
from bridge_env import Bid, Card, Contract, Hands, Pair, Player, Suit, Vul

SEATS = 'NESW'
PL = {s: Player[s] for s in SEATS}
VULS = ['None', 'NS', 'EW', 'Both']
VUL = {'None': Vul.NONE, 'NS': Vul.NS, 'EW': Vul.EW, 'Both': Vul.BOTH}
VUL_NAME = {v: k for k, v in VUL.items()}
ALL_BIDS = list(Bid)                      # definition order = idx order
CALL_NAMES = [str(b) for b in ALL_BIDS]
SUITCH = 'CDHS'


def call_name(b) -> str:
    return str(b)


def call_obj(name: str) -> Bid:
    return ALL_BIDS[CALL_NAMES.index(name)]


def card_obj(c: int) -> Card:
    return Card(c % 13 + 2, Suit[SUITCH[c // 13]])


def card_int(card: Card) -> int:
    return (card.rank - 2) + 13 * SUITCH.index(card.suit.name)


CARDS = [card_obj(i) for i in range(52)]


def hands_obj(deal) -> Hands:
    """deal: dict seat-> iterable of card ints"""
    return Hands(*[set(CARDS[c] for c in deal[s]) for s in SEATS])


def hands_ints(h: Hands):
    return {s: frozenset(card_int(c) for c in h[PL[s]]) for s in SEATS}


def mk_contract(bid: str, doubling: int, vul: str, declarer):
    return Contract(final_bid=call_obj(bid), x=doubling >= 1, xx=doubling == 2, vul=VUL[vul],
                    declarer=PL[declarer] if declarer else None)


def doubling_status(c: Contract) -> int:
    """Doubling *status* (not raw flags): redoubled if xx, else doubled if x."""
    return 2 if c.xx else (1 if c.x else 0)


# ---- calling conventions -------------------------------------------------------------------------------------------------------
# A caller may pass a library function's named parameters by keyword (the library's own JSON parser does).  shaped(f) asks the same
# question positionally and by keyword (all arguments, and all but the first) and returns the positional answer only if all agree.
SHAPE_CALLS = {'n': 0}
_NAMES = {}


def param_names(f, n):
    import inspect
    key = (getattr(f, '__qualname__', None), getattr(f, '__module__', None), n)
    if key in _NAMES:
        return _NAMES[key]
    names = None
    if str(getattr(f, '__module__', '') or '').startswith('bridge_env'):
        try:
            ps = list(inspect.signature(f).parameters.values())
            if len(ps) >= n and all(q.kind is q.POSITIONAL_OR_KEYWORD for q in ps[:n]):
                names = [q.name for q in ps[:n]]
        except (TypeError, ValueError):
            pass
    _NAMES[key] = names
    return names


def shaped(f):
    def call(*a):
        r = f(*a)
        names = param_names(f, len(a)) if a else None
        if names:
            for k in ((0, 1) if len(a) > 1 else (0,)):
                SHAPE_CALLS['n'] += 1
                try:
                    r2 = f(*a[:k], **dict(zip(names[k:], a[k:])))
                except Exception as e:  # noqa
                    r2 = f'raised {type(e).__name__}: {e}'
                if not (r2 == r and type(r2) is type(r)):
                    return f'call shapes disagree: positional arguments -> {r!r}, {names[k:]} passed by keyword -> {r2!r}'
        return r
    call.__qualname__ = getattr(f, '__qualname__', 'f')
    return call
