"""Adapter boundary between bridge_env value objects and the plain values of the reference models."""
from bridge_env import Bid, Card, Contract, Hands, Pair, Player, Suit, Vul

SEATS = 'NESW'
PL = {s: Player[s] for s in SEATS}
VULS = ['None', 'NS', 'EW', 'Both']
VUL = {'None': Vul.NONE, 'NS': Vul.NS, 'EW': Vul.EW, 'Both': Vul.BOTH}
VUL_NAME = {v: k for k, v in VUL.items()}
ALL_BIDS = list(Bid)                      # definition order = idx order
CALL_NAMES = [str(b) for b in ALL_BIDS]
SUITCH = 'CDHS'


def call_name(b) -> str:
    return str(b)


def call_obj(name: str) -> Bid:
    return ALL_BIDS[CALL_NAMES.index(name)]


def card_obj(c: int) -> Card:
    return Card(c % 13 + 2, Suit[SUITCH[c // 13]])


def card_int(card: Card) -> int:
    return (card.rank - 2) + 13 * SUITCH.index(card.suit.name)


CARDS = [card_obj(i) for i in range(52)]


def hands_obj(deal) -> Hands:
    """deal: dict seat-> iterable of card ints"""
    return Hands(*[set(CARDS[c] for c in deal[s]) for s in SEATS])


def hands_ints(h: Hands):
    return {s: frozenset(card_int(c) for c in h[PL[s]]) for s in SEATS}


def mk_contract(bid: str, doubling: int, vul: str, declarer):
    return Contract(final_bid=call_obj(bid), x=doubling >= 1, xx=doubling == 2, vul=VUL[vul],
                    declarer=PL[declarer] if declarer else None)


def doubling_status(c: Contract) -> int:
    """Doubling *status* (not raw flags): redoubled if xx, else doubled if x."""
    return 2 if c.xx else (1 if c.x else 0)
