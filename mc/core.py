"""Common plumbing for all checks: results, violations, evidence, known findings, worker pool."""
from __future__ import annotations

import fnmatch
import json
import multiprocessing as mp
import os
import sys
import time
from dataclasses import dataclass, field
from typing import Any, Callable, Dict, Iterable, List, Optional

VERIF = os.path.dirname(os.path.dirname(os.path.abspath(__file__)))
EVIDENCE_DIR = os.environ.get('VERIF_EVIDENCE_DIR') or os.path.join(VERIF, 'evidence')   # env override: development runs against scratch trees
REPLAY_DIR = os.environ.get('VERIF_REPLAY_DIR') or os.path.join(VERIF, 'replays')
FINDINGS_FILE = os.path.join(VERIF, 'known_findings.json')


def ncpu() -> int:
    try:
        n = len(os.sched_getaffinity(0))
    except Exception:
        n = os.cpu_count() or 1
    return max(1, min(16, n))


@dataclass
class Violation:
    """One counterexample.  key identifies the specific failing input / call site / history class (used to
    match known findings); replay is a JSON-serialisable dict that the property module can re-execute."""
    key: str
    message: str
    replay: Dict[str, Any] = field(default_factory=dict)


@dataclass
class Result:
    coverage: Dict[str, Any]
    violations: List[Violation] = field(default_factory=list)
    assumptions: List[str] = field(default_factory=list)
    level: str = 'model_checking'


class Counter:
    """Mergeable bag of counters + distinct-key sets + a few samples; used inside workers."""

    def __init__(self):
        self.n: Dict[str, int] = {}
        self.sets: Dict[str, set] = {}
        self.samples: List[Any] = []
        self.violations: List[Violation] = []
        self.maxes: Dict[str, int] = {}

    def inc(self, k: str, v: int = 1):
        self.n[k] = self.n.get(k, 0) + v

    def see(self, k: str, item):
        self.sets.setdefault(k, set()).add(item)

    def mx(self, k: str, v: int):
        if v > self.maxes.get(k, -1 << 60):
            self.maxes[k] = v

    def sample(self, s, cap: int = 4):
        if len(self.samples) < cap:
            self.samples.append(s)

    def violate(self, key: str, message: str, replay: Optional[dict] = None, cap: int = 40):
        # keep the first violation per key, and bound the total
        for v in self.violations:
            if v.key == key:
                return
        if len(self.violations) < cap:
            self.violations.append(Violation(key, message, replay or {}))
        self.inc('violations_seen')

    def enough(self, n: int = 25) -> bool:
        """True once n distinct violations have been recorded: an exploration that has found that much need not run to its end
        (a broken tree can make the remaining search arbitrarily slow)."""
        return len(self.violations) >= n or self.n.get('violations_seen', 0) >= 40 * n

    def merge(self, other: 'Counter'):
        for k, v in other.n.items():
            self.n[k] = self.n.get(k, 0) + v
        for k, s in other.sets.items():
            self.sets.setdefault(k, set()).update(s)
        for k, v in other.maxes.items():
            self.mx(k, v)
        for s in other.samples:
            if len(self.samples) < 8:
                self.samples.append(s)
        for v in other.violations:
            if all(v.key != w.key for w in self.violations) and len(self.violations) < 200:
                self.violations.append(v)
        return self

    def get(self, k: str) -> int:
        return self.n.get(k, 0)

    def distinct(self, k: str) -> int:
        return len(self.sets.get(k, ()))


_POOL_FN = None


def _call(arg):
    return _POOL_FN(arg)


def die_with_parent():
    """Linux: this process receives SIGKILL when its parent exits (so that no worker outlives an aborted check)."""
    try:
        import ctypes
        import signal
        ctypes.CDLL('libc.so.6', use_errno=True).prctl(1, int(signal.SIGKILL))       # PR_SET_PDEATHSIG
    except Exception:  # noqa
        pass


def _watch_parent():
    """Belt and braces: a thread in every worker that ends the worker when its parent is gone (re-parented to init / a reaper)."""
    import threading
    parent = os.getppid()

    def loop():
        while True:
            time.sleep(2.0)
            if os.getppid() != parent:
                os._exit(3)
    t = threading.Thread(target=loop, daemon=True)
    t.start()


def _pin():
    """Pin each worker to one core: the virtual threads of an execution hand a baton to each other and never run in
    parallel, so keeping them on one core avoids cross-core wake-ups."""
    die_with_parent()
    _watch_parent()
    try:
        cpus = sorted(os.sched_getaffinity(0))
        ident = mp.current_process()._identity
        k = (ident[0] - 1) if ident else os.getpid()
        os.sched_setaffinity(0, {cpus[k % len(cpus)]})
    except Exception:
        pass


def pmap(fn: Callable, items: Iterable, workers: Optional[int] = None, chunksize: int = 1) -> List[Any]:
    """Fork-pool map (long-lived workers, no fork per execution).  fn may be any callable visible at fork time."""
    global _POOL_FN
    items = list(items)
    w = min(workers or ncpu(), max(1, len(items)))
    if w <= 1 or os.environ.get('VERIF_SERIAL') == '1':
        return [fn(i) for i in items]
    _POOL_FN = fn
    ctx = mp.get_context('fork')
    with ctx.Pool(w, initializer=_pin) as pool:
        return pool.map(_call, items, chunksize)


def merge_all(counters: Iterable[Counter]) -> Counter:
    tot = Counter()
    for c in counters:
        tot.merge(c)
    return tot


# ---------------------------------------------------------------------------------------------------
# known findings

def load_findings() -> dict:
    if not os.path.exists(FINDINGS_FILE):
        return {'open': [], 'fixed': []}
    with open(FINDINGS_FILE) as f:
        return json.load(f)


def match_finding(pid: str, key: str, findings: dict) -> Optional[dict]:
    for f in findings.get('open', []):
        if f.get('property') == pid and fnmatch.fnmatchcase(key, f.get('key', '')):
            return f
    return None


# ---------------------------------------------------------------------------------------------------
# evidence

def write_evidence(pid: str, tier: str, seed: int, res: Result, wall: float, nviol: int) -> str:
    os.makedirs(EVIDENCE_DIR, exist_ok=True)
    cov = dict(res.coverage)
    doc = {
        'property_id': pid,
        'tier': tier,
        'seed': seed,
        'level': res.level,
        'coverage': cov,
        'assumptions': res.assumptions,
        'wall_s': round(wall, 3),
        'violations': nviol,
    }
    path = os.path.join(EVIDENCE_DIR, f'{pid}.json')
    tmp = path + '.tmp'
    with open(tmp, 'w') as f:
        json.dump(doc, f, indent=1, default=str)
        f.write('\n')
    os.replace(tmp, path)
    # self-validate against the harness schema when available
    schema_path = '/root/.vp/EVIDENCE.schema.json'
    if os.path.exists(schema_path):
        try:
            import jsonschema
            with open(schema_path) as f:
                schema = json.load(f)
            with open(path) as f:
                jsonschema.validate(json.load(f), schema)
        except ImportError:
            pass
        except Exception as e:  # schema violation = internal error
            print(f'INTERNAL: evidence file does not validate: {e}', file=sys.stderr)
            sys.exit(2)
    return path


def write_replay(pid: str, idx: int, v: Violation) -> str:
    d = os.path.join(REPLAY_DIR, pid)
    os.makedirs(d, exist_ok=True)
    safe = ''.join(ch if ch.isalnum() or ch in '-_.' else '_' for ch in v.key)[:80]
    path = os.path.join(d, f'{idx:03d}_{safe}.json')
    with open(path, 'w') as f:
        json.dump({'property': pid, 'key': v.key, 'message': v.message, 'replay': v.replay}, f, indent=1,
                  default=str)
        f.write('\n')
    return path


def clear_replays(pid: str):
    d = os.path.join(REPLAY_DIR, pid)
    if os.path.isdir(d):
        for fn in os.listdir(d):
            try:
                os.unlink(os.path.join(d, fn))
            except OSError:
                pass


class Timer:
    def __init__(self):
        self.t0 = time.time()

    def s(self) -> float:
        return time.time() - self.t0
