"""Engine C - interleavings of two calls into the sequential API (hidden shared state: lazily built globals, caches,
scratch attributes on objects that are shared between threads).

This file is run as a FRESH interpreter (python -m mc.conc.zygote) so that every lazily initialised piece of module state of
bridge_env is still in its import-time state; it never calls the API itself.  For every job it forks one child per execution:
  solo runs      each thunk alone, traced, to learn its result and its number of trace points;
  interleavings  thread A runs up to its k-th trace point, thread B then runs to completion, A resumes (one preemption), for
                 EVERY k, and symmetrically with B preempted.
Trace points are 'line' events (granularity='line') or bytecode boundaries ('opcode') inside the bridge_env package.
Only one thread runs at a time (baton passing); a thread that does not reach its next trace point within the time-out is
reported as blocked (inconclusive, not a violation).

stdin: JSON {"setup": <python source defining thunks>, "jobs": [{"name":..., "a": <expr>, "b": <expr>, "shared": <stmts or "">}], "granularity": ...}
stdout: one JSON line per job."""
import json
import os
import sys
import threading
import traceback

TIMEOUT = 3.0


def pkg_dir():
    import bridge_env
    return os.path.dirname(os.path.abspath(bridge_env.__file__)) + os.sep


class Baton:
    def __init__(self):
        self.sem = [threading.Semaphore(0), threading.Semaphore(0)]
        self.done = [False, False]
        self.count = [0, 0]
        self.quota = [None, None]          # yield when count reaches quota (once)
        self.blocked = False
        self.main = threading.Semaphore(0)

    def point(self, i):
        self.count[i] += 1
        if self.quota[i] is not None and self.count[i] == self.quota[i]:
            self.quota[i] = None
            j = 1 - i
            if not self.done[j]:
                self.sem[j].release()
                if not self.sem[i].acquire(timeout=TIMEOUT * 4):
                    self.blocked = True


def make_tracer(b: Baton, i: int, prefix: str, gran: str):
    def local(frame, event, arg):
        if event == gran:
            b.point(i)
        return local

    def tracer(frame, event, arg):
        if event == 'call' and frame.f_code.co_filename.startswith(prefix):
            if gran == 'opcode':
                frame.f_trace_opcodes = True
            return local
        return None
    return tracer


def execute(ns, a_src, b_src, shared_src, quota, first, gran, prefix):
    """One execution in this (child) process.  quota = (qa, qb); first = index of the thread that starts."""
    env = dict(ns)
    if shared_src:
        exec(shared_src, env)
    thunks = [eval('lambda: ' + a_src, env), eval('lambda: ' + b_src, env)]
    b = Baton()
    b.quota = list(quota)
    res = [None, None]

    idents = {}
    if gran == 'opcode':
        # bytecode boundaries through sys.monitoring (sys.settrace does not deliver 'opcode' events reliably on CPython 3.12)
        mon = sys.monitoring
        tool = mon.DEBUGGER_ID
        mon.use_tool_id(tool, 'verif-engine-c')

        def on_instruction(code, offset):
            if not code.co_filename.startswith(prefix):
                return mon.DISABLE
            i = idents.get(threading.get_ident())
            if i is not None:
                b.point(i)
        mon.register_callback(tool, mon.events.INSTRUCTION, on_instruction)

    def body(i):
        b.sem[i].acquire()
        if gran == 'opcode':
            idents[threading.get_ident()] = i
            if len(idents) == 1:
                sys.monitoring.set_events(sys.monitoring.DEBUGGER_ID, sys.monitoring.events.INSTRUCTION)
        else:
            sys.settrace(make_tracer(b, i, prefix, gran))
        try:
            res[i] = ('ok', repr(thunks[i]()))
        except BaseException as e:  # noqa
            res[i] = ('exc', type(e).__name__ + ': ' + str(e)[:120])
        finally:
            if gran == 'opcode':
                idents.pop(threading.get_ident(), None)
            else:
                sys.settrace(None)
            b.done[i] = True
            j = 1 - i
            if not b.done[j]:
                b.sem[j].release()
            else:
                b.main.release()
    ts = [threading.Thread(target=body, args=(i,), daemon=True) for i in (0, 1)]
    for t in ts:
        t.start()
    b.sem[first].release()
    ok = b.main.acquire(timeout=TIMEOUT * 6)
    return {'res': res, 'count': b.count, 'finished': bool(ok) and all(b.done), 'blocked': b.blocked or not ok}


def execute_main(ns, src, shared_src):
    """The thunk alone, in the thread that imported the library (the main thread of a fresh child), untraced."""
    env = dict(ns)
    if shared_src:
        exec(shared_src, env)
    try:
        return {'res': ('ok', repr(eval(src, env)))}
    except BaseException as e:  # noqa
        return {'res': ('exc', type(e).__name__ + ': ' + str(e)[:120])}


def in_child(fn):
    r, w = os.pipe()
    pid = os.fork()
    if pid == 0:
        try:
            _die_with_parent()
            os.close(r)
            try:
                out = fn()
            except BaseException:  # noqa
                out = {'error': traceback.format_exc()[-800:]}
            os.write(w, json.dumps(out).encode())
        finally:
            os._exit(0)
    os.close(w)
    data = b''
    while True:
        chunk = os.read(r, 65536)
        if not chunk:
            break
        data += chunk
    os.close(r)
    os.waitpid(pid, 0)
    return json.loads(data) if data else {'error': 'child died'}


def _die_with_parent():
    try:
        import ctypes
        import signal
        ctypes.CDLL('libc.so.6', use_errno=True).prctl(1, int(signal.SIGKILL))
    except Exception:  # noqa
        pass


def main():
    _die_with_parent()
    req = json.load(sys.stdin)
    gran = req.get('granularity', 'line')
    max_points = req.get('max_points', 400)
    ns = {}
    exec(req['setup'], ns)                       # imports only; must not call the API
    prefix = pkg_dir()
    for job in req['jobs']:
        a, bsrc, sh = job['a'], job['b'], job.get('shared', '')
        out = {'name': job['name'], 'a': a, 'b': bsrc, 'executions': 0, 'violations': [], 'blocked': 0, 'points': [0, 0]}
        # solo runs in fresh children: a then nothing, b then nothing (the other thunk replaced by a no-op)
        sa = in_child(lambda: execute(ns, a, 'None', sh, (None, None), 0, gran, prefix))
        sb = in_child(lambda: execute(ns, 'None', bsrc, sh, (None, None), 1, gran, prefix))
        # sequential both orders (reference outcomes when the calls are not independent, e.g. a shared object)
        s_ab = in_child(lambda: execute(ns, a, bsrc, sh, (None, None), 0, gran, prefix))
        s_ba = in_child(lambda: execute(ns, a, bsrc, sh, (None, None), 1, gran, prefix))
        if any('error' in x for x in (sa, sb, s_ab, s_ba)):
            out['error'] = next(x['error'] for x in (sa, sb, s_ab, s_ba) if 'error' in x)
            print(json.dumps(out), flush=True)
            continue
        out['executions'] += 4
        admissible = {(tuple(s_ab['res'][0]), tuple(s_ab['res'][1])), (tuple(s_ba['res'][0]), tuple(s_ba['res'][1]))}
        out['solo'] = [sa['res'][0], sb['res'][1]]
        # the same call in the thread that imported the library: which thread asks must not matter (per-thread tables, thread-local
        # state filled at import time)
        for which, src, solo in (('a', a, sa['res'][0]), ('b', bsrc, sb['res'][1])):
            m = in_child(lambda: execute_main(ns, src, sh))
            out['executions'] += 1
            if 'error' in m:
                out['error'] = m['error']
                break
            if tuple(m['res']) != tuple(solo):
                out['violations'].append({'preempted': which, 'at_point': 0, 'of': 0, 'thread_dependent': True, 'got': [list(solo), None],
                                          'sequential': [[list(m['res']), None]]})
        if 'error' in out:
            print(json.dumps(out), flush=True)
            continue
        out['points'] = [sa['count'][0], sb['count'][1]]
        for i, n in ((0, sa['count'][0]), (1, sb['count'][1])):
            for k in range(1, min(n, max_points) + 1):
                quota = (k, None) if i == 0 else (None, k)
                x = in_child(lambda: execute(ns, a, bsrc, sh, quota, i, gran, prefix))
                out['executions'] += 1
                if 'error' in x:
                    out['error'] = x['error']
                    break
                if x['blocked'] or not x['finished']:
                    out['blocked'] += 1
                    continue
                got = (tuple(x['res'][0]), tuple(x['res'][1]))
                if got not in admissible:
                    out['violations'].append({'preempted': 'ab'[i], 'at_point': k, 'of': n, 'got': [list(got[0]), list(got[1])],
                                              'sequential': [[list(p) for p in adm] for adm in sorted(admissible)]})
                    if len(out['violations']) >= 3:
                        break
            if len(out['violations']) >= 3:
                break
        print(json.dumps(out), flush=True)


if __name__ == '__main__':
    main()
