"""Call pairs explored by Engine C, per property.  Every job runs two calls of the sequential API in two threads under every
single-preemption interleaving; the pair of results must be one that some sequential order produces."""

_CON = "Contract(Bid.NT3, x=True, xx=False, vul=Vul.NS, declarer=Player.E)"
_DEAL_SETUP = ("h1 = Hands.convert_pbn(PBN1)\nh2 = Hands.convert_pbn(PBN2)\nb1 = {p: tuple(1 if (p.value * 13 + i) % 52 < 13 else 0 for i in range(52)) for p in Player}\n"
               "b2 = {p: tuple(1 if (p.value * 13 + i + 5) % 52 < 13 else 0 for i in range(52)) for p in Player}\n"
               "import numpy as np\nn1 = {p: np.array(v) for p, v in b1.items()}\nn2 = {p: np.array(v) for p, v in b2.items()}\n"
               "j1 = {'N': ['C2', 'SA'], 'E': ['D3'], 'S': ['HK'], 'W': ['CT']}\nj2 = {'N': ['S2'], 'E': ['H3', 'DA'], 'S': ['CK'], 'W': ['DT']}")


def pair(name, a, b, shared=''):
    return {'name': name, 'a': a, 'b': b, 'shared': shared}


C15 = [
    pair('Card.int_to_card', 'Card.int_to_card(0)', 'Card.int_to_card(51)'),
    pair('Card.str_to_card', "Card.str_to_card('C2')", "Card.str_to_card('SA')"),
    pair('Card.__str__', 'str(Card(10, Suit.H))', 'str(Card(14, Suit.S))'),
    pair('Card.__int__', 'int(Card(2, Suit.C))', 'int(Card(14, Suit.S))'),
    pair('Card.rank_int_to_str', 'Card.rank_int_to_str(10)', 'Card.rank_int_to_str(2)'),
    pair('Card.rank_str_to_int', "Card.rank_str_to_int('T')", "Card.rank_str_to_int('9')"),
    pair('Card.order', 'Card(2, Suit.C) < Card(14, Suit.S)', 'sorted([Card(14, Suit.S), Card(2, Suit.C), Card(9, Suit.D)])'),
    pair('Bid.str_to_bid', "Bid.str_to_bid('1H')", "Bid.str_to_bid('7NT')"),
    pair('Bid.str_to_bid-calls', "Bid.str_to_bid('Pass')", "Bid.str_to_bid('XX')"),
    pair('Bid.int_to_bid', 'Bid.int_to_bid(0)', 'Bid.int_to_bid(37)'),
    pair('Bid.level_suit_to_bid', 'Bid.level_suit_to_bid(1, Suit.C)', 'Bid.level_suit_to_bid(7, Suit.NT)'),
    pair('Bid.__str__/idx', 'str(Bid.NT7)', '(Bid.H1.idx, Bid.H1.level, Bid.H1.suit)'),
    pair('Player.convert_formal_name', "Player.convert_formal_name('North')", "Player.convert_formal_name('West')"),
    pair('Player.formal_name', 'Player.S.formal_name', '(Player.E.partner, Player.E.next_player, Player.E.pair)'),
    pair('Vul.str_to_vul', "Vul.str_to_vul('All')", "Vul.str_to_vul('-')"),
    pair('Vul.__str__', 'str(Vul.BOTH)', 'Vul.NONE.pbn_format()'),
    pair('Contract.str_to_contract', "Contract.str_to_contract('3NTXX', vul=Vul.NS, declarer=Player.E)", "Contract.str_to_contract('Passed_out')"),
    pair('Contract.__str__', f'str({_CON})', f'({_CON}.level, {_CON}.trump, {_CON}.is_vul())'),
    pair('str_to_bid+str_to_contract', "Bid.str_to_bid('2S')", "Contract.str_to_contract('2SX', vul=Vul.EW, declarer=Player.W)"),
    pair('str_to_card+str_to_bid', "Card.str_to_card('DT')", "Bid.str_to_bid('4D')"),
]

C07 = [
    pair('calc_score', f'calc_score({_CON}, 9)', 'calc_score(Contract(Bid.C1, vul=Vul.NS, declarer=Player.N), 0)'),
    pair('calc_score-sides', 'calc_score(Contract(Bid.S4, vul=Vul.NS, declarer=Player.N), 10)', 'calc_score(Contract(Bid.S4, vul=Vul.NS, declarer=Player.E), 10)'),
    pair('calc_score-passedout', 'calc_score(Contract(None, vul=Vul.EW), 0)', 'calc_score(Contract(Bid.NT7, xx=True, x=True, vul=Vul.BOTH, declarer=Player.S), 0)'),
    pair('calc_bid_score', 'calc_bid_score(Bid.H2, True, False, False, 8)', 'calc_bid_score(Bid.NT6, False, False, True, 12)'),
]

C16 = [
    pair('point_difference_to_imps', 'point_difference_to_imps(-3999)', 'point_difference_to_imps(20)'),
    pair('point_difference_to_imps-big', 'point_difference_to_imps(10 ** 30)', 'point_difference_to_imps(0)'),
    pair('score_to_imp', 'score_to_imp(620, -100)', 'score_to_imp(-50, -420)'),
]

C06 = [
    pair('available_cards', 'sorted(PlayingPhase.available_cards({Card(2, Suit.C), Card(3, Suit.D)}, Card(9, Suit.D)))',
         'sorted(PlayingPhase.available_cards({Card(14, Suit.S), Card(13, Suit.H)}, None))'),
    pair('RandomPlay-shared-object', 'ps.play(ha, e1)', 'ps.play(hb, e2)',
         shared="ps = RandomPlay()\ncon = Contract(Bid.C1, declarer=Player.N)\ne1 = PlayingPhase(con)\ne2 = PlayingPhase(con)\ne2.play_card(Card(9, Suit.H))\n"
                "ha = {Card(2, Suit.C), Card(3, Suit.D), Card(5, Suit.H)}\nhb = {Card(14, Suit.S), Card(13, Suit.H), Card(2, Suit.H)}"),
    pair('RandomPlay-two-objects', 'RandomPlay().play(ha, e1)', 'RandomPlay().play(hb, e1)',
         shared="con = Contract(Bid.NT1, declarer=Player.S)\ne1 = PlayingPhase(con)\nha = {Card(2, Suit.C), Card(3, Suit.D)}\nhb = {Card(14, Suit.S), Card(13, Suit.H)}"),
    pair('current_available_cards', 'sorted(e1.current_available_cards(ha))', 'sorted(e2.current_available_cards(hb))',
         shared="con = Contract(Bid.C1, declarer=Player.N)\ne1 = PlayingPhase(con)\ne2 = PlayingPhase(con)\ne2.play_card(Card(9, Suit.H))\n"
                "ha = {Card(2, Suit.C), Card(3, Suit.D), Card(5, Suit.H)}\nhb = {Card(14, Suit.S), Card(13, Suit.H), Card(2, Suit.H)}"),
]

C14 = [
    pair('to_pbn', 'h1.to_pbn(Player.E)', 'h2.to_pbn(Player.N)', _DEAL_SETUP),
    pair('convert_pbn', 'Hands.convert_pbn(PBN1).to_pbn()', 'Hands.convert_pbn(PBN2).to_pbn()'),
    pair('to_binary', 'sorted((p.name, v) for p, v in h1.to_binary().items())', 'sorted((p.name, v) for p, v in h2.to_binary().items())', _DEAL_SETUP),
    pair('binary-roundtrip', 'Hands.convert_binary(h1.to_binary()).to_pbn()', 'Hands.convert_binary(h2.to_binary()).to_pbn()', _DEAL_SETUP),
    pair('np-roundtrip', 'Hands.convert_np_binary(h1.to_np_binary()).to_pbn()', 'Hands.convert_np_binary(h2.to_np_binary()).to_pbn()', _DEAL_SETUP),
    pair('json-lists', 'hands_parser(convert_deal(h1)).to_pbn()', 'hands_parser(convert_deal(h2)).to_pbn()', _DEAL_SETUP),
    pair('decode-binary-first-use', 'sorted(map(str, Hands.convert_binary(b1).north))', 'sorted(map(str, Hands.convert_binary(b2).east))', _DEAL_SETUP),
    pair('decode-np-first-use', 'sorted(map(str, Hands.convert_np_binary(n1).south))', 'sorted(map(str, Hands.convert_np_binary(n2).west))', _DEAL_SETUP),
    pair('decode-json-first-use', 'sorted(map(str, hands_parser(j1).north))', 'sorted(map(str, hands_parser(j2).east))', _DEAL_SETUP),
    pair('random-dealer', 'sorted(len(v) for v in Hands.generate_random_hands().to_dict().values())', 'sorted(len(v) for v in Hands.generate_random_hands().to_dict().values())'),
    pair('same-object', 'h1.to_pbn(Player.S)', 'sorted((p.name, v) for p, v in h1.to_binary().items())', _DEAL_SETUP),
]

C19 = [
    pair('parse_bid', "MessageInterface.parse_bid('North bids 1NT', 'North')", "MessageInterface.parse_bid('west DOUBLES', 'West')"),
    pair('parse_card', "MessageInterface.parse_card('South plays TS', Player.S)", "MessageInterface.parse_card('East plays h2', Player.E)"),
    pair('create_bid_message', "Client.create_bid_message(Bid.NT3, 'North')", "Client.create_bid_message(Bid.Pass, 'East')"),
    pair('hand_to_str', 'Server.hand_to_str(h1.north)', 'Server.hand_to_str(h2.east)', _DEAL_SETUP),
    pair('parse_hand', "sorted(map(str, Client.parse_hand('S A K 3. H -. D 4 2. C J.')[0]))", "sorted(map(str, Client.parse_hand('S -. H T 9. D -. C A K Q.')[0]))"),
    pair('parse_board', "Client.parse_board('Board number 7. Dealer East. Both vulnerable.')", "Client.parse_board('Board number 12. Dealer North. Neither vulnerable.')"),
    pair('parse_connection_info', "PlayerThread.parse_connection_info('Connecting \"a b\" as north using protocol version 18')",
         "PlayerThread.parse_connection_info('Connecting \"\" as West using protocol version 17')"),
    pair('remove_alert_word', "Server.remove_alert_word('North bids 1C  Alert. ')", "Server.remove_alert_word('East passes ALERT.')"),
]

BY_PROPERTY = {'C06': C06, 'C07': C07, 'C14': C14, 'C15': C15, 'C16': C16, 'C19': C19}
