"""Driver of Engine C: runs mc.conc.zygote in fresh interpreters (in parallel) and turns its reports into counters/violations."""
from __future__ import annotations

import json
import os
import subprocess
import sys
from typing import Dict, List

from ..core import Counter, pmap

SETUP = '''
import random
from bridge_env import Bid, Card, Contract, Hands, Pair, Player, Suit, Vul
from bridge_env.score import calc_score, calc_bid_score, point_difference_to_imps, score_to_imp
from bridge_env.playing_phase import PlayingPhase, PlayingPhaseWithHands, ObservedPlayingPhase
from bridge_env.network_bridge.socket_interface import MessageInterface
from bridge_env.network_bridge.client import Client
from bridge_env.network_bridge.server import Server, PlayerThread
import bridge_env.network_bridge.playing_system as PS
from bridge_env.network_bridge.playing_system import RandomPlay
from bridge_env.data_handler.json_handler.parser import hands_parser
from bridge_env.data_handler.json_handler.writer import convert_deal
class _First:
    @staticmethod
    def choice(seq):
        return sorted(seq)[0]
PS.random = _First
PBN1 = 'N:4.KJ32.842.AQ743 JT987.Q876.AK5.2 AK532.T.JT6.T985 Q6.A954.Q973.KJ6'
PBN2 = 'E:KQ9752.K74.8742. T.A93.QT93.KJ873 J6.T852.AJ65.QT9 A843.QJ6.K.A6542'
'''


def _run_batch(args):
    jobs, gran, max_points = args
    here = os.path.dirname(os.path.dirname(os.path.dirname(os.path.abspath(__file__))))
    env = dict(os.environ)
    env['PYTHONPATH'] = os.pathsep.join(p for p in [os.environ.get('VERIF_REPO'), here] if p)
    env['PYTHONDONTWRITEBYTECODE'] = '1'
    p = subprocess.run([sys.executable, '-m', 'mc.conc.zygote'], input=json.dumps({'setup': SETUP, 'jobs': jobs, 'granularity': gran, 'max_points': max_points}),
                       stdout=subprocess.PIPE, stderr=subprocess.PIPE, text=True, env=env, cwd=here, timeout=3600)
    out = []
    for line in p.stdout.splitlines():
        line = line.strip()
        if line.startswith('{'):
            out.append(json.loads(line))
    if p.returncode != 0 or len(out) != len(jobs):
        raise RuntimeError(f'zygote failed (exit {p.returncode}): {p.stderr[-800:]}')
    return out


def explore_pairs(tag: str, jobs: List[dict], tier: str, workers: int, c: Counter):
    """jobs: [{'name', 'a', 'b', 'shared'?}]; every single-preemption interleaving of the two calls, at line granularity (quick)
    or bytecode granularity (thorough)."""
    gran = 'line' if tier == 'quick' else 'opcode'
    n = max(1, min(workers, len(jobs)))
    batches = [(jobs[i::n], gran, 260 if tier == 'quick' else 1500) for i in range(n)]
    for reports in pmap(_run_batch, batches, workers):
        for r in reports:
            c.inc('conc_pairs')
            c.inc('conc_executions', r['executions'])
            c.inc('conc_blocked', r['blocked'])
            c.inc('conc_trace_points', sum(r['points']))
            if 'error' in r:
                raise RuntimeError(f'Engine C harness error in {r["name"]}: {r["error"]}')
            for v in r['violations']:
                if v.get('thread_dependent'):
                    src = r['a'] if v['preempted'] == 'a' else r['b']
                    c.violate(f'{tag}:thread-dependent:{r["name"]}',
                              f'`{src}` called alone in a second thread gives {v["got"][0]}; in the thread that imported the library it gives {v["sequential"][0][0]}',
                              {'kind': 'conc', 'job': {k: r[k] for k in ("name", "a", "b")} | {'shared': next((j.get("shared", "") for j in jobs if j["name"] == r["name"]), "")},
                               'granularity': gran, 'violation': v})
                    continue
                c.violate(f'{tag}:concurrent:{r["name"]}',
                          f'two calls in two threads, `{r["a"]}` and `{r["b"]}`: with thread {v["preempted"]} preempted at trace point {v["at_point"]} of {v["of"]} '
                          f'the results are {v["got"]}; run one after the other they are {v["sequential"][0]}',
                          {'kind': 'conc', 'job': {k: r[k] for k in ("name", "a", "b")} | {'shared': next((j.get("shared", "") for j in jobs if j["name"] == r["name"]), "")},
                           'granularity': gran, 'violation': v})
            c.see('conc_names', r['name'])
    return c


def replay(d) -> tuple:
    c = Counter()
    explore_pairs('X', [d['job']], 'quick' if d.get('granularity') == 'line' else 'thorough', 1, c)
    return bool(c.violations), '\n'.join(v.message for v in c.violations) or 'every interleaving agrees with a sequential order'


def extend(res, tag: str, tier: str, workers: int):
    """Adds the Engine-C phase of property `tag` to a Result produced by the sequential part of its check."""
    from . import jobs
    c = Counter()
    explore_pairs(tag, jobs.BY_PROPERTY[tag], tier, workers, c)
    res.violations = list(res.violations) + c.violations
    cov = res.coverage
    cov['concurrent_call_pairs'] = c.get('conc_pairs')
    cov['concurrent_executions'] = c.get('conc_executions')
    cov['concurrent_trace_points'] = c.get('conc_trace_points')
    cov['concurrent_executions_blocked_inconclusive'] = c.get('conc_blocked')
    cov['concurrent_granularity'] = 'source line' if tier == 'quick' else 'bytecode instruction'
    for k in ('evaluations', 'traces_validated_against_impl', 'transitions'):
        if isinstance(cov.get(k), int):
            cov[k] += c.get('conc_executions')
    cov['rule'] = cov.get('rule', '') + (' | Engine C (hidden shared state): for each of ' + str(c.get('conc_pairs')) + ' pairs of calls into these functions, run in two threads in a fresh '
                                        'interpreter state: every interleaving with ONE preemption (thread A stopped at each of its trace points - ' + cov['concurrent_granularity'] +
                                        ' boundaries inside bridge_env - while thread B runs to completion, and vice versa); the pair of results must equal that of a sequential order.')
    res.assumptions = list(res.assumptions) + ['Engine C: one preemption per execution; trace points are ' + cov['concurrent_granularity'] + ' boundaries (CPython switches threads only between bytecodes)']
    return res


def wrap(module_globals: dict, tag: str):
    """Installs run/replay wrappers in a property module: sequential check + Engine-C phase."""
    seq_run, seq_replay = module_globals['run'], module_globals.get('replay')

    def run(tier, seed, workers):
        return extend(seq_run(tier, seed, workers), tag, tier, workers)

    def replay_(d):
        if d.get('kind') == 'conc':
            return replay(d)
        return seq_replay(d)
    module_globals['run'] = run
    module_globals['replay'] = replay_
