"""Keeps the modelled primitives bound to CPython: a fixed set of micro-scenarios is run against the REAL threading / queue /
socket primitives (real threads forced into the intended order by polling the primitives' own state) and against the virtual
ones (same bodies, blocking replaced by scheduler guards); the observed outcomes must be identical.
A mismatch is an internal error of the machinery (exit 2), never a property verdict."""
from __future__ import annotations

import queue as rq
import socket as rs
import threading as rt
import time as rtime
from typing import Callable, Dict

from . import prims, world


class Real:
    """Adapter: real primitives + a way to wait for a condition (polling)."""
    name = 'real'
    Event, Barrier, Thread, Queue, Empty = rt.Event, rt.Barrier, rt.Thread, rq.Queue, rq.Empty

    @staticmethod
    def until(cond, timeout=5.0):
        t0 = rtime.time()
        while not cond():
            if rtime.time() - t0 > timeout:
                raise TimeoutError('conformance scenario: condition not reached on real primitives')
            rtime.sleep(0.001)

    @staticmethod
    def waiters(ev) -> int:
        return len(ev._cond._waiters)

    @staticmethod
    def barrier_waiting(b) -> int:
        return b.n_waiting

    @staticmethod
    def socketpair():
        return rs.socketpair()

    @staticmethod
    def run(main: Callable[[], dict]) -> dict:
        return main()


class Virt:
    name = 'virtual'
    Event, Barrier, Thread, Queue, Empty = prims.Event, prims.Barrier, prims.Thread, prims.Queue, prims.Empty

    @staticmethod
    def until(cond, timeout=None):
        prims.CUR.op('aux.until', cond, prims._true, False)

    @staticmethod
    def waiters(ev) -> int:
        return len(ev.waiters)

    @staticmethod
    def barrier_waiting(b) -> int:
        return b.count

    @staticmethod
    def socketpair():
        lst = prims.VSocket()
        lst.bind(('h', 1))
        lst.listen()
        a = prims.VSocket()
        a.connect(('h', 1))
        b, _ = lst.accept()
        return a, b

    @staticmethod
    def run(main: Callable[[], dict]) -> dict:
        box = {}

        def setup(s):
            t = s.add_thread('main', lambda: box.update(main()), tid=0)
            s.make_runnable(t)
            return None
        x = world.execute(setup, prims.Policy(), horizon=100_000)
        if x.status != 'complete':
            return {'status': x.status, 'detail': str(x.detail)}
        if x.threads['main']['exc'] is not None:
            return {'exception': repr(x.threads['main']['exc'])}
        return box


def scenarios(M) -> Dict[str, Callable[[], dict]]:
    def waiter_then_pulse():
        ev = M.Event()
        out = {}
        t = M.Thread(target=lambda: out.update(woke=ev.wait()))
        t.start()
        M.until(lambda: M.waiters(ev) == 1)
        ev.set()
        ev.clear()                       # back-to-back pulse: the waiter already enqueued must still wake up
        t.join()
        return {'woke': out.get('woke'), 'flag_after': ev.is_set()}

    def pulse_then_waiter():
        ev = M.Event()
        ev.set()
        ev.clear()
        out = {}
        t = M.Thread(target=lambda: out.update(woke=ev.wait(0.05)))
        t.start()
        t.join()
        return {'woke': out.get('woke')}                                # False: the pulse is missed by a late waiter

    def set_stays_set():
        ev = M.Event()
        ev.set()
        out = {}
        ts = [M.Thread(target=lambda i=i: out.update({i: ev.wait()})) for i in range(3)]
        for t in ts:
            t.start()
        for t in ts:
            t.join()
        return {'all': sorted(out.items()), 'flag': ev.is_set()}

    def two_waiters_one_pulse():
        ev = M.Event()
        out = []
        ts = [M.Thread(target=lambda: out.append(ev.wait())) for _ in range(2)]
        for t in ts:
            t.start()
        M.until(lambda: M.waiters(ev) == 2)
        ev.set()
        ev.clear()
        for t in ts:
            t.join()
        return {'woken': out}

    def barrier_cyclic():
        b = M.Barrier(3)
        idx = [[], []]

        def body():
            for g in range(2):
                idx[g].append(b.wait())
        ts = [M.Thread(target=body) for _ in range(2)]
        for t in ts:
            t.start()
        M.until(lambda: M.barrier_waiting(b) == 2)
        body()
        for t in ts:
            t.join()
        return {'gen0': sorted(idx[0]), 'gen1': sorted(idx[1]), 'waiting_after': M.barrier_waiting(b)}

    def barrier_needs_all_parties():
        b = M.Barrier(3)
        passed = []
        ts = [M.Thread(target=lambda: passed.append(b.wait()), daemon=True) for _ in range(2)]
        for t in ts:
            t.start()
        M.until(lambda: M.barrier_waiting(b) == 2)
        before = list(passed)                   # nobody passes with 2 of 3 parties
        b.wait()
        for t in ts:
            t.join()
        return {'before': before, 'after': sorted(passed)}

    def queue_fifo_and_blocking():
        q = M.Queue()
        got = []

        def consumer():
            for _ in range(3):
                got.append(q.get())
        t = M.Thread(target=consumer)
        t.start()
        for x in ('a', 'b', 'c'):
            q.put(x)
        t.join()
        try:
            q.get(block=False)
            empty = False
        except M.Empty:
            empty = True
        return {'got': got, 'empty_raises': empty}

    def thread_alive():
        gate = M.Event()
        t = M.Thread(target=lambda: gate.wait())
        before = t.is_alive()
        t.start()
        during = t.is_alive()
        gate.set()
        t.join()
        return {'before_start': before, 'during': during, 'after_join': t.is_alive()}

    def socket_eof():
        a, b = M.socketpair()
        b.sendall(b'xy\r\n')
        b.close()
        r = [a.recv(1), a.recv(1), a.recv(2), a.recv(1), a.recv(1), a.recv(5)]
        a.close()
        return {'reads': r}

    def socket_order():
        a, b = M.socketpair()
        a.sendall(b'one')
        a.sendall(b'two')
        got = b.recv(4) + b.recv(10)
        a.close()
        b.close()
        return {'got': got}
    return {f.__name__: f for f in (waiter_then_pulse, pulse_then_waiter, set_stays_set, two_waiters_one_pulse, barrier_cyclic, barrier_needs_all_parties,
                                    queue_fifo_and_blocking, thread_alive, socket_eof, socket_order)}


def main(verbose: bool = False) -> int:
    real = scenarios(Real)
    n = 0
    for name, f in real.items():
        r = Real.run(f)
        # the virtual run must build its scenario inside the execution (objects bind to the scheduler at creation)
        v = Virt.run(lambda name=name: scenarios(Virt)[name]())
        if r != v:
            raise prims.InternalError(f'virtual primitives do not conform to CPython in scenario {name}: real {r}, virtual {v}')
        n += 1
        if verbose:
            print(f'  {name}: {r}')
    print(f'primitive conformance: {n} scenarios agree (real vs virtual)')
    return n


if __name__ == '__main__':
    main(True)
