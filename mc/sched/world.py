"""Loads bridge_env.network_bridge a second time, bound to the virtual primitives, and provides the pieces a harness
needs to close the system: in-memory output file, seat-table proxy, controlled `random`, execution driver."""
from __future__ import annotations

import importlib
import io
import logging
import sys
from typing import Any, Callable, Dict, List, Optional

from . import prims

_NB = ['bridge_env.network_bridge', 'bridge_env.network_bridge.server', 'bridge_env.network_bridge.client',
       'bridge_env.network_bridge.socket_interface', 'bridge_env.network_bridge.bidding_system',
       'bridge_env.network_bridge.playing_system']
_V: Optional[dict] = None


def load() -> dict:
    """Returns {'server','client','si','bs','ps'}: the network modules imported with sys.modules['threading'|'queue'|
    'socket'|'time'] pointing at the virtual modules.  The real modules stay importable under their usual names."""
    global _V
    if _V is not None:
        return _V
    import bridge_env.network_bridge.server  # noqa: F401  (real import first: every other dependency loads normally)
    import bridge_env.network_bridge.client  # noqa: F401
    logging.disable(logging.CRITICAL)
    vm = prims.build_modules()
    saved_std = {k: sys.modules.get(k) for k in vm}
    saved_nb = {k: sys.modules.pop(k) for k in _NB if k in sys.modules}
    import bridge_env
    saved_attr = getattr(bridge_env, 'network_bridge', None)
    try:
        sys.modules.update(vm)
        mods = {
            'si': importlib.import_module('bridge_env.network_bridge.socket_interface'),
            'server': importlib.import_module('bridge_env.network_bridge.server'),
            'client': importlib.import_module('bridge_env.network_bridge.client'),
            'bs': importlib.import_module('bridge_env.network_bridge.bidding_system'),
            'ps': importlib.import_module('bridge_env.network_bridge.playing_system'),
        }
    finally:
        for k, v in saved_std.items():
            if v is None:
                sys.modules.pop(k, None)
            else:
                sys.modules[k] = v
        for k in _NB:
            sys.modules.pop(k, None)
        sys.modules.update(saved_nb)
        if saved_attr is not None:
            bridge_env.network_bridge = saved_attr
    srv = mods['server']
    # however the network modules import their primitives (from threading import X / import threading / ...), none of the names they
    # hold may be a REAL synchronisation, queue or socket primitive
    import queue as _rq
    import socket as _rs
    import threading as _rt
    real = {_rt.Thread, _rt.Event, _rt.Barrier, _rt.Condition, _rt.Semaphore, _rq.Queue, _rq.SimpleQueue, _rs.socket, _rt, _rq, _rs}
    for mname in ('server', 'client', 'si'):
        for k, v in vars(mods[mname]).items():
            try:
                if v in real:
                    raise prims.InternalError(f'{mname}.{k} is bound to a real primitive ({v!r}), not to the virtual one')
            except TypeError:
                pass
    mods['client'].print = lambda *a, **k: None      # Client.run prints
    mods['orig_PlayerThread'] = srv.PlayerThread
    _V = mods
    return mods


class MemFile(io.StringIO):
    """In-memory text file standing in for the server's output file: a real io.StringIO (write, tell, seek, truncate, ... behave as
    on a file opened in text mode) that keeps its content after close() and records writes attempted after the close."""

    def __init__(self, store: dict, path: str):
        super().__init__()
        self.store = store
        self.path = path
        self._closed_flag = False
        self.writes_after_close = 0
        self._final = None
        store[path] = self

    def write(self, s):
        if self._closed_flag:
            self.writes_after_close += 1
            raise ValueError('I/O operation on closed file.')
        return super().write(s)

    def close(self):
        if not self._closed_flag:
            self._final = self.getvalue()
            self._closed_flag = True
        # the buffer is kept (not released) so that the content can be inspected after the session

    @property
    def closed(self):
        return self._closed_flag

    def __exit__(self, *a):
        self.close()

    @property
    def text(self) -> str:
        return self._final if self._closed_flag else self.getvalue()


LAST_STORE: dict = {}
CURRENT_OPEN = None
HARNESS_FILE_NAMES = {'out.json', 'out1.json', 'out2.json'}


def make_open(store: dict, existing: Optional[Dict[str, str]] = None):
    """existing: content that is already at a path when the session starts (an earlier session's log).  Mode 'w' truncates it,
    mode 'a' keeps it - as a real file system does."""
    global LAST_STORE, CURRENT_OPEN
    LAST_STORE = store

    def _open(path, mode='r', *a, **k):
        if 'w' not in mode and 'a' not in mode and 'x' not in mode:
            raise prims.InternalError(f'harness open() used for reading {path}')
        f = MemFile(store, str(path))
        old = (existing or {}).get(str(path))
        if 'x' in mode and old is not None:
            raise FileExistsError(str(path))
        if 'a' in mode and old is not None:
            io.StringIO.write(f, old)
        return f
    CURRENT_OPEN = _open
    return _open


class SeatTable:
    """Proxy for the team_names dict handed to every PlayerThread: same storage (the main thread reads the original
    dict), but every access by a seat thread is a visible operation."""

    def __init__(self, d: dict):
        self._d = d
        self._s = prims.CUR
        self.uid = self._s.new_uid()

    def __getitem__(self, k):
        return self._s.op(f'seats.get[{k}]', prims._true, lambda: self._d[k], True)

    def __setitem__(self, k, v):
        def act():
            self._d[k] = v
        self._s.op(f'seats.set[{k}]', prims._true, act, True)

    def items(self):
        return self._s.op('seats.items', prims._true, lambda: list(self._d.items()), True)

    def values(self):
        return self._s.op('seats.values', prims._true, lambda: list(self._d.values()), True)

    def keys(self):
        return self._d.keys()

    def get(self, k, default=None):
        return self._s.op(f'seats.get[{k}]', prims._true, lambda: self._d.get(k, default), True)

    def __contains__(self, k):
        return k in self._d

    def __iter__(self):
        return iter(self._d)

    def __len__(self):
        return len(self._d)


def install_player_thread(mods, recorder: Optional[Callable] = None):
    """Substitute a PlayerThread subclass that wraps the seat table (module global looked up at call time)."""
    srv = mods['server']
    base = mods['orig_PlayerThread']
    tables: Dict[int, SeatTable] = {}

    class HarnessPlayerThread(base):  # type: ignore
        def __init__(self, *a, **k):
            super().__init__(*a, **k)
            tn = self.team_names
            if isinstance(tn, dict):
                px = tables.get(id(tn))
                if px is None or px._s is not prims.CUR:
                    px = tables[id(tn)] = SeatTable(tn)
                self.team_names = px
            if recorder is not None:
                recorder(self)

    HarnessPlayerThread.__name__ = 'PlayerThread'
    srv.PlayerThread = HarnessPlayerThread
    return HarnessPlayerThread


class Chooser:
    """Replacement for the `random` module inside playing_system: choice() is decided by the harness."""

    def __init__(self, decide: Callable[[list], Any]):
        self.decide = decide

    def choice(self, seq):
        seq = sorted(seq)
        return self.decide(seq)

    def __getattr__(self, name):
        raise prims.InternalError(f'random.{name} used under the harness')


class Execution:
    """Result of one execution."""
    __slots__ = ('status', 'detail', 'points', 'choices', 'threads', 'files', 'extra', 'nsteps', 'notes')

    def __init__(self):
        self.extra = {}


def execute(setup: Callable[[prims.Sched], Any], policy: Optional[prims.Policy] = None, horizon: int = 400_000,
            all_visible: bool = False, record_ops: bool = False) -> Execution:
    """Create a fresh scheduler, let `setup` populate it (threads registered with sched.add_thread + make_runnable,
    fresh server/clients), run to the end, and collect the outcome.  setup returns a callable `collect(sched)` -> dict."""
    prims.FALLTHROUGH.clear()
    s = prims.Sched(policy, horizon=horizon, all_visible=all_visible, record_ops=record_ops)
    prims.CUR = s
    prims.reset_import_time_objects()
    # however the code under test opens its output file (open(path), path.open(), Path(path).open(), io.open) it must reach the
    # in-memory file of this execution, never the real file system
    import builtins
    import pathlib
    orig_path_open, orig_io_open = pathlib.Path.open, io.open

    def path_open(self, mode='r', *a, **k):
        if self.name in HARNESS_FILE_NAMES and CURRENT_OPEN is not None and any(ch in mode for ch in 'wax'):
            return CURRENT_OPEN(str(self), mode)
        return orig_path_open(self, mode, *a, **k)
    pathlib.Path.open = path_open
    # ... and however it removes or probes that file (Path.unlink, os.remove, os.unlink, Path.exists, os.path.exists)
    import os
    orig_unlink, orig_exists, orig_remove, orig_os_unlink, orig_os_exists = pathlib.Path.unlink, pathlib.Path.exists, os.remove, os.unlink, os.path.exists

    def _is_ours(path) -> bool:
        try:
            return os.path.basename(os.fspath(path)) in HARNESS_FILE_NAMES
        except TypeError:
            return False

    def _remove(path, missing_ok=False):
        key = os.fspath(path)
        if key in LAST_STORE:
            LAST_STORE.pop(key)
        elif not missing_ok:
            raise FileNotFoundError(2, 'No such file or directory', key)

    def path_unlink(self, missing_ok=False):
        return _remove(self, missing_ok) if _is_ours(self) else orig_unlink(self, missing_ok)

    def path_exists(self, *a, **k):
        return os.fspath(self) in LAST_STORE if _is_ours(self) else orig_exists(self, *a, **k)

    def os_remove(path, *a, **k):
        return _remove(path) if _is_ours(path) else orig_remove(path, *a, **k)

    def os_exists(path):
        return os.fspath(path) in LAST_STORE if _is_ours(path) else orig_os_exists(path)
    pathlib.Path.unlink, pathlib.Path.exists, os.remove, os.unlink, os.path.exists = path_unlink, path_exists, os_remove, os_remove, os_exists
    try:
        collect = setup(s)
        s.run()
    finally:
        prims.CUR = None
        pathlib.Path.open = orig_path_open
        pathlib.Path.unlink, pathlib.Path.exists, os.remove, os.unlink, os.path.exists = orig_unlink, orig_exists, orig_remove, orig_os_unlink, orig_os_exists
    bad = prims.FALLTHROUGH - prims.FALLTHROUGH_OK
    if bad:
        raise prims.InternalError(f'code under test reached for primitives that are not modelled: {sorted(bad)}')
    x = Execution()
    x.status, x.detail, x.points, x.choices, x.nsteps, x.notes = s.status, s.detail, s.points, s.choices, s.nsteps, s.notes
    x.threads = {t.name: {'state': t.state, 'exc': t.exc, 'nops': t.nops, 'id': t.id, 'oplog': t.oplog}
                 for t in s.threads}
    x.extra = collect(s) if collect is not None else {}
    return x
