"""Schedule exploration (Engine B).

* bounded(): all executions with at most d deviations from the default scheduler, each run to completion
  (iterative deviation bounding; stateless, prefixes are re-executed on fresh objects).
* cached(): every choice at every scheduling point, no bound, with a `seen` set of canonical global states
  (an execution is cut when it reaches a state already seen).
* priority(): the schedules 'thread X runs only when nothing else can'.
"""
from __future__ import annotations

import copy
from typing import Callable, Dict, List, Optional

from ..core import Counter, pmap
from . import prims, world


class Ctx:
    """What a worker needs: how to build the world and how to judge one execution."""

    def __init__(self, setup_factory: Callable[[], Callable], judge: Callable[[world.Execution, Counter, List[int]], None],
                 horizon: int = 400_000, all_visible: bool = False):
        self.setup_factory = setup_factory
        self.judge = judge
        self.horizon = horizon
        self.all_visible = all_visible


def run_once(ctx: Ctx, prefix: List[int], expect: Optional[list] = None, policy: Optional[prims.Policy] = None) -> world.Execution:
    for _ in range(5):
        polled = len(prims.POLLED)
        pol = copy.deepcopy(policy) if policy is not None else prims.ReplayPolicy(prefix)
        x = world.execute(ctx.setup_factory(), pol, horizon=ctx.horizon, all_visible=ctx.all_visible)
        if len(prims.POLLED) == polled:
            break
        # a queue was asked without blocking (get_nowait / empty / qsize) for the first time: the single-producer single-consumer
        # reduction does not hold for it, its puts must be scheduling points from the start of the execution - run again
    if x.status == 'internal':
        raise prims.InternalError(str(x.detail))
    if expect is not None:
        for i in range(min(len(expect), len(prefix))):
            if i >= len(x.points) or x.points[i][0] != expect[i][0]:
                raise prims.InternalError(f'replay diverged at scheduling point {i}: expected {expect[i][0]}, '
                                          f'got {x.points[i][0] if i < len(x.points) else "end of execution"}')
    return x


def _subtree(ctx: Ctx, prefix: List[int], expect: list, budget: int, c: Counter):
    if c.enough():
        return
    x = run_once(ctx, prefix, expect)
    c.inc('executions')
    c.inc('points', len(x.points))
    c.inc('steps', x.nsteps)
    c.mx('max_points', len(x.points))
    c.see('status', x.status)
    ctx.judge(x, c, prefix)
    if len(c.samples) < 2:
        k = len(prefix) - 1
        c.sample({'schedule_with_deviation_at_point': k, 'enabled_there': [f'{n}:{l}' for n, l in x.points[k][0]] if 0 <= k < len(x.points) else None,
                  'chosen': x.points[k][0][x.points[k][1]][0] if 0 <= k < len(x.points) else None, 'scheduling_points': len(x.points), 'outcome': x.status}, cap=2)
    if budget <= 0:
        return
    for i in range(len(prefix), len(x.points)):
        n = len(x.points[i][0])
        for alt in range(1, n):
            _subtree(ctx, x.choices[:i] + [alt], x.points, budget - 1, c)


def warm(ctx: Ctx, d: dict):
    """Replay support: a violation recorded on the second run of a session in one process needs the first run before it."""
    if d.get('repeat') == 2:
        run_once(ctx, [])


def bounded(ctx: Ctx, d: int, workers: int, c: Optional[Counter] = None) -> Counter:
    """All executions with <= d deviations.  Work is split by the first deviation."""
    c = c or Counter()
    prims.POLLED.clear()         # per scenario: which queues are polled is found out again by the first execution(s)
    x0 = run_once(ctx, [])
    x1 = run_once(ctx, [])
    from .session import outcome_signature
    if x0.points != x1.points or outcome_signature(x0) != outcome_signature(x1):
        # The same session, same schedule, run a second time in this process, went differently.  Everything the harness owns is rebuilt
        # per execution, so either the library carried something over from the first session (module-level or class-level state) or the
        # harness has a leak.  Judge both runs: a process that plays two sessions is ordinary use, and if the oracle condemns one of
        # them that is a finding about the library; if both are fine and still differ, it is our problem.
        cc = Counter()
        ctx.judge(x0, cc, [])
        n0 = len(cc.violations)
        ctx.judge(x1, cc, [])
        if not cc.violations:
            raise prims.InternalError('the default schedule is not reproducible: uncontrolled nondeterminism in the harness')
        for i, v in enumerate(cc.violations):
            rp = dict(v.replay or {}, repeat=1 if i < n0 else 2)
            c.violate(v.key, v.message + (' [the same session played a SECOND time in one process; the first time it went differently]' if i >= n0 else ''), rp)
        c.inc('executions', 2)
        c.inc('sessions_that_differ_when_played_twice_in_one_process')
        return c
    ctx.horizon = max(50_000, 20 * x0.nsteps)
    c.inc('executions')
    c.inc('points', len(x0.points))
    c.inc('steps', x0.nsteps)
    c.mx('max_points', len(x0.points))
    c.mx('default_points', len(x0.points))
    c.see('status', x0.status)
    ctx.judge(x0, c, [])
    if d <= 0:
        return c
    items = []
    for i in range(len(x0.points)):
        for alt in range(1, len(x0.points[i][0])):
            items.append(x0.choices[:i] + [alt])

    def work(prefix):
        cc = Counter()
        _subtree(ctx, prefix, x0.points, d - 1, cc)
        return cc
    for cc in pmap(work, items, workers):
        c.merge(cc)
    c.mx('deviation_bound_completed', d)
    return c


def priority(ctx: Ctx, names: List[str], c: Optional[Counter] = None, deep: bool = True, workers: int = 1) -> Counter:
    """For each name: the schedule in which that thread is chosen only when no other thread is enabled; plus the round-robin schedule.
    With deep=True each starvation schedule is run a second time with EVERY operation a scheduling point: the starved thread is then
    held back at its queue and connection operations too (a stall in the middle of a hand-over, not only at a synchronisation call),
    which the reduced search cannot produce because it runs those operations eagerly."""
    c = c or Counter()
    prims.POLLED.clear()
    run_once(ctx, [])            # finds out which queues are polled (inherited by the workers)
    jobs = [('@fair', False)] + [(nm, False) for nm in names] + ([(nm, True) for nm in names] if deep and not ctx.all_visible else [])

    def work(job):
        nm, dp = job
        cc = Counter()
        saved = ctx.all_visible
        ctx.all_visible = saved or dp
        try:
            x = run_once(ctx, [], policy=prims.FairPolicy() if nm == '@fair' else prims.PriorityPolicy(nm))
        finally:
            ctx.all_visible = saved
        cc.inc('executions')
        cc.inc('priority_schedules')
        if dp:
            cc.inc('deep_starvation_schedules')
        cc.inc('points', len(x.points))
        cc.inc('steps', x.nsteps)
        cc.see('status', x.status)
        ctx.judge(x, cc, ['priority-deep' if dp else 'priority', nm])
        return cc
    for cc in pmap(work, jobs, workers):
        c.merge(cc)
    return c


class LocalSeen:
    def __init__(self):
        self.s = set()

    def check_add(self, k) -> bool:
        """True if k was already there; otherwise adds it."""
        if k in self.s:
            return True
        self.s.add(k)
        return False

    def __len__(self):
        return len(self.s)


class SharedSeen:
    """Set of 64-bit state hashes shared by the forked workers: open addressing in a shared array.  Two workers may insert the same
    key at the same moment and both go on to explore it (duplicated work, never lost coverage); aligned 8-byte stores are atomic on
    the platforms this runs on."""

    def __init__(self, bits: int = 23):
        import multiprocessing as mp
        self.n = 1 << bits
        self.mask = self.n - 1
        self.a = mp.RawArray('Q', self.n)
        self.count = mp.RawValue('q', 0)

    def check_add(self, k) -> bool:
        h = (k & 0xFFFFFFFFFFFFFFFF) or 1
        i = (h * 0x9E3779B97F4A7C15 >> 17) & self.mask
        a = self.a
        for _ in range(self.n):
            v = a[i]
            if v == 0:
                a[i] = h
                self.count.value += 1          # approximate under races; exact enough for reporting
                return False
            if v == h:
                return True
            i = (i + 1) & self.mask
        raise prims.InternalError('shared state table full')

    def __len__(self):
        return self.count.value


def _dfs(ctx: Ctx, roots: List[List[int]], seen, c: Counter, max_execs: Optional[int] = None,
         stop_when_pending: Optional[int] = None) -> List[List[int]]:
    """Depth-first search with re-execution.  Returns the prefixes left unexplored (when stopped early)."""
    stack = list(roots)
    while stack:
        if max_execs is not None and c.get('executions') >= max_execs:
            c.inc('cap_hit')
            return stack
        if stop_when_pending is not None and len(stack) >= stop_when_pending:
            return stack
        prefix = stack.pop(0) if stop_when_pending is not None else stack.pop()
        pending: List[List[int]] = []

        def on_point(s: prims.Sched, i: int, enabled):
            if seen.check_add(s.state_key()):
                raise prims.Cut()
            c.inc('new_states')
            c.inc('transitions', len(enabled))
            for alt in range(1, len(enabled)):
                pending.append(s.choices[:i] + [alt])
            return 0
        x = run_once(ctx, prefix, policy=prims.ReplayPolicy(prefix, on_point))
        c.inc('executions')
        c.inc('steps', x.nsteps)
        c.mx('max_points', len(x.points))
        c.see('status', x.status)
        if x.status != 'cut':
            c.inc('complete_executions')
            ctx.judge(x, c, x.choices)
        stack.extend(pending)
    return []


def cached(ctx: Ctx, workers: int, max_execs_per_worker: Optional[int] = None, c: Optional[Counter] = None) -> Counter:
    """Unbounded state-cached search.  The top of the tree is explored breadth-first in this process until enough open prefixes
    exist; those are then explored depth-first by the worker pool, all workers sharing ONE table of visited states (SharedSeen)."""
    c = c or Counter()
    prims.POLLED.clear()
    seen = SharedSeen() if workers > 1 else LocalSeen()
    open_prefixes = _dfs(ctx, [[]], seen, c, stop_when_pending=max(1, workers * 8) if workers > 1 else None, max_execs=max_execs_per_worker if workers <= 1 else None)
    if not open_prefixes or workers <= 1:
        c.inc('unexplored_prefixes', len(open_prefixes))
        c.n['states'] = c.n.pop('new_states', 0)
        return c

    def work(roots):
        cc = Counter()
        left = _dfs(ctx, roots, seen, cc, max_execs=max_execs_per_worker)
        cc.inc('unexplored_prefixes', len(left))
        return cc
    # many small chunks: the pool hands a new one to whichever worker becomes free
    for cc in pmap(work, [[p] for p in open_prefixes], workers):
        c.merge(cc)
    c.n['states'] = c.n.pop('new_states', 0)
    return c
