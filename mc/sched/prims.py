"""Virtual threading / queue / socket / time primitives driven by an explicit scheduler (Engine B).

Every virtual thread is a real OS thread that runs only while it holds the baton (one real semaphore per thread).
A thread announces its next operation (label, guard, action, visible?) and parks; the scheduler picks one thread
whose guard is true, which performs its action and runs alone to its next operation.

* safe operations (single-producer/single-consumer channel operations and purely local steps) are executed eagerly
  and never create a scheduling point (singleton ample set);
* visible operations (Event/Barrier/Lock/Condition/Semaphore, Thread.start/is_alive/join/exit, connect, seat-table
  accesses) create a scheduling point whenever more than one thread is enabled;
* no enabled thread while an unfinished one exists  => deadlock;  step horizon exceeded => livelock.

The module-level CUR is the scheduler of the execution in progress; virtual objects bind to it at creation time."""
from __future__ import annotations

import collections
import _thread
import threading as _rt
import types
from typing import Any, Callable, Dict, List, Optional

CUR: Optional['Sched'] = None
FALLTHROUGH: set = set()          # names looked up on the real modules through the virtual ones


class Abort(BaseException):
    """Raised inside virtual threads to unwind them when an execution is cut (deadlock, cut by the explorer, ...)."""


class InternalError(Exception):
    """The machinery cannot explore soundly (divergent replay, unmodelled primitive used, ...)."""


def _num(uid) -> int:
    import zlib
    return zlib.crc32(str(uid).encode()) % 20000


def _h(v):
    if v is None or isinstance(v, (int, str, bytes, bool, float)):
        return v
    if isinstance(v, tuple):
        return tuple(_h(x) for x in v)
    uid = getattr(v, 'uid', None)
    if uid is not None:
        return ('obj', uid)
    return type(v).__name__


IMPORT_TIME_OBJECTS: list = []       # virtual primitives created while no execution was in progress (module- or class-level state of
                                     # the code under test): they are (re-)initialised under the scheduler of every execution that uses them


def late_bindable(cls):
    """A primitive created outside an execution (CUR is None) stays uninitialised; the first attribute access inside an execution
    runs its constructor under that execution's scheduler.  reset_import_time_objects() empties such objects between executions, so
    every execution sees them as a fresh process would."""
    orig_init = cls.__init__

    def __init__(self, *a, **k):
        if CUR is None:
            self.__dict__['_ctor'] = (a, k)
            self.__dict__['_late'] = True
            IMPORT_TIME_OBJECTS.append(self)
            return
        orig_init(self, *a, **k)

    def __getattr__(self, name):
        d = self.__dict__
        if d.get('_late') and not d.get('_inited') and CUR is not None and not name.startswith('__'):
            d['_inited'] = True
            orig_init(self, *d['_ctor'][0], **d['_ctor'][1])
            return getattr(self, name)
        raise AttributeError(name)
    cls.__init__ = __init__
    cls.__getattr__ = __getattr__
    return cls


def reset_import_time_objects():
    for o in IMPORT_TIME_OBJECTS:
        keep = {'_ctor': o.__dict__['_ctor'], '_late': True}
        o.__dict__.clear()
        o.__dict__.update(keep)


class Baton:
    """Binary semaphore on a raw lock (much cheaper than threading.Semaphore): acquire() parks, release() wakes."""
    __slots__ = ('l',)

    def __init__(self):
        self.l = _thread.allocate_lock()
        self.l.acquire()

    def acquire(self):
        self.l.acquire()

    def release(self):
        try:
            self.l.release()
        except RuntimeError:
            pass


class Op:
    """guard/action: the operation proper.  tmo: what happens instead when the operation's time-out fires (only for blocking calls that
    were given a timeout); a thread whose guard is false but which has a tmo can be chosen by the scheduler - that choice is 'the
    time-out fires now' - but only as an alternative to the threads that can really run, or when nothing else can run at all."""
    __slots__ = ('label', 'guard', 'action', 'visible', 'tmo')

    def __init__(self, label, guard, action, visible, tmo=None):
        self.label = label
        self.guard = guard
        self.action = action
        self.visible = visible
        self.tmo = tmo


def _true():
    return True


class VT:
    """Scheduler-side record of a virtual thread."""

    def __init__(self, sched, tid, name, body):
        self.sched = sched
        self.id = tid
        self.name = name
        self.body = body
        self.sem = Baton()
        self.state = 'new'            # new | run | done | aborted
        self.pending: Optional[Op] = None
        self.nops = 0
        self.hist = 0
        self.exc: Optional[BaseException] = None
        self.real: Optional[_rt.Thread] = None
        self.inject: Dict[int, BaseException] = {}   # op index -> exception raised in place of the operation
        self.oplog: Optional[list] = None
        self.fire_tmo = False
        self.observed = False         # True when code under test holds a Thread object for it (join / is_alive can see its end)

    def __repr__(self):
        return f'<VT {self.id} {self.name} {self.state}>'


class Policy:
    """Default scheduler: choice 0 = keep the running thread if enabled, else the lowest id."""

    def choose(self, sched: 'Sched', enabled: List[VT]) -> int:
        return 0


class ReplayPolicy(Policy):
    def __init__(self, prefix, on_point=None):
        self.prefix = list(prefix)
        self.on_point = on_point

    def choose(self, sched, enabled):
        i = len(sched.points)
        if i < len(self.prefix):
            c = self.prefix[i]
            if not (0 <= c < len(enabled)):
                raise InternalError(f'replay diverged at point {i}: choice {c} of {len(enabled)} enabled')
            return c
        if self.on_point is not None:
            return self.on_point(sched, i, enabled)
        return 0


class PriorityPolicy(Policy):
    """'thread X runs only when nothing else can': X is always the last choice."""

    def __init__(self, starved: str):
        self.starved = starved

    def choose(self, sched, enabled):
        for i, t in enumerate(enabled):
            if not t.name.startswith(self.starved):
                return i
        return 0


class FairPolicy(Policy):
    """Round robin: at every scheduling point the enabled thread that has waited longest since it was last chosen (all parties of the
    system make progress side by side - in particular two table managers in one process really overlap)."""

    def __init__(self):
        self.last: Dict[str, int] = {}
        self.n = 0

    def choose(self, sched, enabled):
        self.n += 1
        best = min(range(len(enabled)), key=lambda i: (self.last.get(enabled[i].name, -1), enabled[i].id))
        self.last[enabled[best].name] = self.n
        return best


class Cut(Exception):
    """Raised by an on_point callback to stop the execution here (state already seen)."""


class Sched:
    def __init__(self, policy: Optional[Policy] = None, horizon: int = 2_000_000, all_visible: bool = False,
                 record_ops: bool = False):
        self.policy = policy or Policy()
        self.horizon = horizon
        self.all_visible = all_visible
        self.record_ops = record_ops
        self.threads: List[VT] = []
        self.current: Optional[VT] = None
        self.points: List[tuple] = []          # (enabled [(name,label)], chosen index)
        self.choices: List[int] = []
        self.done_sem = Baton()
        self.status: Optional[str] = None      # complete | deadlock | livelock | cut | mismatch:<..> | internal
        self.detail: Any = None
        self.aborting = False
        self.objects: List[Any] = []
        self.nsteps = 0
        self.nvisible = 0
        self._uid = 0
        self._uid_by: Dict[str, int] = {}
        self._dyn_id = 1
        self.net = Net(self)
        self.clock = 1_000_000.0
        self.notes: List[str] = []
        self.internal: Optional[BaseException] = None

    # ---- registration
    def new_uid(self, obj=None):
        """Canonical name of a new primitive: <creating thread>.<k-th object created by that thread>.  It does not depend on how the
        threads were interleaved, so operation labels and state keys of equivalent global states coincide."""
        self._uid += 1
        who = self.current.name if self.current is not None else 'setup'
        k = self._uid_by.get(who, 0) + 1
        self._uid_by[who] = k
        if obj is not None:
            self.objects.append(obj)
        return f'{who}.{k}'

    def _new_uid_old(self, obj=None) -> int:
        self._uid += 1
        if obj is not None:
            self.objects.append(obj)
        return self._uid

    def add_thread(self, name: str, body: Callable[[], None], tid: Optional[int] = None) -> VT:
        if tid is None:
            tid = self._dyn_id
            self._dyn_id += 1
        t = VT(self, tid, name, body)
        t.oplog = [] if self.record_ops else None
        self.threads.append(t)
        self.threads.sort(key=lambda x: x.id)
        return t

    def make_runnable(self, t: VT):
        assert t.state == 'new'
        t.state = 'run'
        t.pending = Op('begin', _true, _true, False)
        t.real = _rt.Thread(target=self._wrapper, args=(t,), daemon=True)
        t.real.start()

    # ---- thread side
    def _wrapper(self, t: VT):
        t.sem.acquire()
        if self.aborting:
            t.state = 'aborted'
            return
        try:
            self.current = t
            t.pending = None
            t.nops += 1
            try:
                t.body()
            except Abort:
                raise
            except BaseException as e:  # noqa  (recorded; the thread then terminates like any other)
                t.exc = e
            # the end of a thread is visible only to whoever holds its Thread object (join, is_alive); the end of a harness thread
            # (a scripted peer, the thread that calls Server.run) changes nothing any other thread can read: not a scheduling point
            self.op('exit', _true, _true, t.observed)
        except Abort:
            t.state = 'aborted'
            return
        except BaseException as e:  # noqa
            self.internal = e
            t.state = 'aborted'
            self._abort('internal', repr(e))
            return
        t.state = 'done'
        try:
            self._handoff(t)
        except Abort:
            pass
        except BaseException as e:  # noqa
            self.internal = e
            self._abort('internal', repr(e))

    def op(self, label: str, guard, action, visible: bool, note=None, tmo=None):
        me = self.current
        if self.aborting:
            raise Abort()
        if me is None or me.real is not _rt.current_thread():
            raise InternalError(f'operation {label} from a thread that does not hold the baton')
        self.nsteps += 1
        if self.nsteps > self.horizon:
            self._abort('livelock', f'more than {self.horizon} operations')
            raise Abort()
        inj = me.inject.get(me.nops)
        if inj is not None:
            me.nops += 1
            if me.oplog is not None:
                me.oplog.append((label, 'INJECTED ' + type(inj).__name__, note))
            raise inj
        me.pending = Op(label, guard, action, visible or tmo is not None, tmo)
        me.fire_tmo = False
        nxt = self._pick()
        if nxt is None:
            self._abort('deadlock', self.blocked_set())
            raise Abort()
        if nxt is not me:
            self.current = nxt
            nxt.sem.release()
            me.sem.acquire()
            if self.aborting:
                raise Abort()
            self.current = me
        if me.fire_tmo:
            me.fire_tmo = False
            label = label + '!timeout'
            res = tmo()
        else:
            res = action()
        me.pending = None
        me.nops += 1
        # the rolling hash of what the thread has observed; a barrier's arrival index is left out (it encodes the arrival ORDER of the
        # parties, which no code under test here reads: keeping it would make every order of arrival a different state)
        me.hist = hash((me.hist, label, None if label.endswith('.arrive') else _h(res)))
        if me.oplog is not None:
            me.oplog.append((label, _h(res), note))
        return res

    def _handoff(self, me: VT):
        nxt = self._pick()
        if nxt is None:
            if all(t.state in ('done', 'new') for t in self.threads):
                self.status = 'complete'
                self.done_sem.release()
            else:
                self._abort('deadlock', self.blocked_set())
            return
        self.current = nxt
        nxt.sem.release()

    def _pick(self) -> Optional[VT]:
        cur = self.current
        live = [t for t in self.threads if t.state == 'run' and t.pending is not None]
        if not self.all_visible:
            if cur is not None and cur.state == 'run' and cur.pending is not None and not cur.pending.visible \
                    and cur.pending.guard():
                return cur
            for t in live:
                if not t.pending.visible and t.pending.guard():
                    return t
        ready = [t for t in live if t.pending.guard()]
        # threads blocked in a call that was given a time-out: 'the time-out fires' is an alternative, listed after the threads that can run
        waiting = [t for t in live if t.pending.tmo is not None and t not in ready]
        enabled = ready + waiting
        if not enabled:
            return None
        if len(enabled) == 1:
            enabled[0].fire_tmo = enabled[0] in waiting
            return enabled[0]
        if cur is not None and cur in ready:
            enabled.remove(cur)
            enabled.insert(0, cur)
        if not ready:
            # nothing can run: time passes until the first time-out fires (no choice recorded when there is only one kind of progress)
            pass
        try:
            idx = self.policy.choose(self, enabled)
        except Cut:
            self._abort('cut', None)
            raise Abort()
        except InternalError as e:
            self.internal = e
            self._abort('internal', repr(e))
            raise Abort()
        self.points.append((tuple((t.name, t.pending.label + ('!timeout' if t in waiting else '')) for t in enabled), idx))
        self.choices.append(idx)
        self.nvisible += 1
        enabled[idx].fire_tmo = enabled[idx] in waiting
        return enabled[idx]

    def blocked_set(self):
        return tuple(sorted((t.name, t.pending.label if t.pending else '?') for t in self.threads if t.state == 'run'))

    def _abort(self, status: str, detail):
        if not self.aborting:
            self.aborting = True
            self.status = status
            self.detail = detail
            self.done_sem.release()

    def stop(self, status: str, detail=None):
        """Called from inside a virtual thread (e.g. a scripted client that saw an unexpected message)."""
        self._abort(status, detail)
        raise Abort()

    # ---- controller side
    def run(self):
        """Run the execution to its end from the controlling (non-virtual) thread."""
        try:
            nxt = self._pick()
        except Abort:
            nxt = None
        if nxt is None:
            if not self.aborting:
                self._abort('deadlock', self.blocked_set())
        else:
            self.current = nxt
            nxt.sem.release()
        self.done_sem.acquire()
        if self.aborting:
            for t in self.threads:
                if t.real is not None:
                    t.sem.release()
        for t in self.threads:
            if t.real is not None:
                t.real.join(120)          # generous: on an overloaded machine unwinding a few dozen threads can take seconds
                if t.real.is_alive():
                    raise InternalError(f'virtual thread {t.name} did not terminate')
        if self.internal is not None:
            raise InternalError(f'internal error inside a virtual thread: {self.internal!r}') from self.internal
        return self.status

    # ---- state key for the state-cached search
    def state_key(self):
        th = tuple((t.id, t.state, t.pending.label if t.pending else None, t.nops, t.hist) for t in self.threads)
        ob = tuple(sorted(((o.uid, o.key()) for o in self.objects), key=lambda z: z[0]))
        return hash((th, ob))


# ------------------------------------------------------------------------------------------------------------------
# threading

@late_bindable
class Event:
    def __init__(self):
        self.s = CUR
        self.uid = self.s.new_uid(self)
        self.flag = False
        self.waiters: List[list] = []
        self.lbl = f'ev{self.uid}'

    def key(self):
        return ('ev', self.flag, len(self.waiters))

    def is_set(self):
        return self.s.op(self.lbl + '.is_set', _true, lambda: self.flag, True)

    isSet = is_set

    def set(self):
        def act():
            self.flag = True
            for w in self.waiters:
                w[0] = True
            self.waiters = []
        self.s.op(self.lbl + '.set', _true, act, True)

    def clear(self):
        def act():
            self.flag = False
        self.s.op(self.lbl + '.clear', _true, act, True)

    def wait(self, timeout=None):
        w = [False]

        def step1():
            if self.flag:
                return True
            self.waiters.append(w)
            return False
        if self.s.op(self.lbl + '.wait', _true, step1, True):
            return True
        if timeout is None:
            # CPython: the notified waiter returns True without re-reading the flag
            self.s.op(self.lbl + '.wake', lambda: w[0], _true, False)
            return True

        def gave_up():
            if w in self.waiters:
                self.waiters.remove(w)
            return w[0]
        return self.s.op(self.lbl + '.wake', lambda: w[0], _true, True, tmo=gave_up)


class BrokenBarrierError(RuntimeError):
    pass


@late_bindable
class Barrier:
    def __init__(self, parties, action=None, timeout=None):
        self.s = CUR
        self.uid = self.s.new_uid(self)
        self.parties = parties
        self.action = action
        self.count = 0
        self.gen = 0
        self.broken = False
        self.reset_gens: set = set()          # generations whose waiters were thrown out by reset()
        self.lbl = f'bar{self.uid}'

    def key(self):
        return ('bar', self.count, self.gen, self.broken)

    @property
    def n_waiting(self):
        return self.count

    def wait(self, timeout=None):
        box = {}

        def arrive():
            if self.broken:
                raise BrokenBarrierError()
            idx = self.count
            self.count += 1
            box['gen'] = self.gen
            if self.count == self.parties:
                self.count = 0
                self.gen += 1
                box['last'] = True
            return idx
        idx = self.s.op(self.lbl + '.arrive', _true, arrive, True)
        if box.get('last'):
            if self.action is not None:
                self.action()
            return idx
        g = box['gen']

        def passed():
            if self.broken or g in self.reset_gens:
                raise BrokenBarrierError()
            return idx
        if timeout is None:
            return self.s.op(self.lbl + '.pass', lambda: self.gen != g or self.broken, passed, False)

        def timed_out():
            self.broken = True
            raise BrokenBarrierError()
        return self.s.op(self.lbl + '.pass', lambda: self.gen != g or self.broken, passed, True, tmo=timed_out)

    def abort(self):
        def act():
            self.broken = True
        self.s.op(self.lbl + '.abort', _true, act, True)

    def reset(self):
        def act():
            # CPython: threads waiting at the barrier receive BrokenBarrierError, the barrier is then empty and usable again
            if self.count > 0:
                self.reset_gens.add(self.gen)
            self.broken = False
            self.count = 0
            self.gen += 1
        self.s.op(self.lbl + '.reset', _true, act, True)


@late_bindable
class Lock:
    def __init__(self):
        self.s = CUR
        self.uid = self.s.new_uid(self)
        self.owner = None
        self.depth = 0
        self.lbl = f'lock{self.uid}'

    reentrant = False

    def key(self):
        return ('lock', self.owner.id if self.owner else None, self.depth)

    def _free_for(self, me):
        return self.owner is None or (self.reentrant and self.owner is me)

    def acquire(self, blocking=True, timeout=-1):
        me = self.s.current

        def act():
            if self._free_for(me):
                self.owner = me
                self.depth += 1
                return True
            return False
        if blocking and (timeout is None or timeout < 0):
            return self.s.op(self.lbl + '.acquire', lambda: self._free_for(me), act, True)
        if blocking and timeout > 0:
            return self.s.op(self.lbl + '.acquire', lambda: self._free_for(me), act, True, tmo=lambda: False)
        return self.s.op(self.lbl + '.try_acquire', _true, act, True)

    def release(self):
        def act():
            if self.owner is None:
                raise RuntimeError('release unlocked lock')
            self.depth -= 1
            if self.depth == 0:
                self.owner = None
        self.s.op(self.lbl + '.release', _true, act, True)

    def locked(self):
        return self.s.op(self.lbl + '.locked', _true, lambda: self.owner is not None, True)

    def __enter__(self):
        self.acquire()
        return self

    def __exit__(self, *a):
        self.release()


class RLock(Lock):
    reentrant = True


@late_bindable
class Condition:
    def __init__(self, lock=None):
        self.s = CUR
        self.lock = lock if lock is not None else RLock()
        self.uid = self.s.new_uid(self)
        self.waiters: List[list] = []
        self.lbl = f'cond{self.uid}'
        self.acquire = self.lock.acquire
        self.release = self.lock.release

    def key(self):
        return ('cond', len(self.waiters))

    def __enter__(self):
        self.lock.acquire()
        return self

    def __exit__(self, *a):
        self.lock.release()

    def wait(self, timeout=None):
        w = [False]
        saved = {}

        def rel():
            saved['depth'] = self.lock.depth
            self.lock.depth = 0
            self.lock.owner = None
            self.waiters.append(w)
        self.s.op(self.lbl + '.wait', _true, rel, True)
        me = self.s.current
        if timeout is None:
            self.s.op(self.lbl + '.wake', lambda: w[0], _true, False)
            got = True
        else:
            def gave_up():
                if w in self.waiters:
                    self.waiters.remove(w)
                return w[0]
            got = self.s.op(self.lbl + '.wake', lambda: w[0], _true, True, tmo=gave_up)

        def reacq():
            self.lock.owner = me
            self.lock.depth = saved['depth']
        self.s.op(self.lock.lbl + '.reacquire', lambda: self.lock.owner is None, reacq, True)
        return got

    def wait_for(self, predicate, timeout=None):
        r = predicate()
        while not r:
            if not self.wait(timeout) and timeout is not None:
                return predicate()
            r = predicate()
        return r

    def notify(self, n=1):
        def act():
            for w in self.waiters[:n]:
                w[0] = True
            del self.waiters[:n]
        self.s.op(self.lbl + '.notify', _true, act, True)

    def notify_all(self):
        self.notify(1 << 30)

    notifyAll = notify_all


@late_bindable
class Semaphore:
    def __init__(self, value=1):
        self.s = CUR
        self.uid = self.s.new_uid(self)
        self.value = value
        self.lbl = f'sem{self.uid}'

    def key(self):
        return ('sem', self.value)

    def acquire(self, blocking=True, timeout=None):
        def act():
            if self.value > 0:
                self.value -= 1
                return True
            return False
        if blocking and timeout is None:
            return self.s.op(self.lbl + '.acquire', lambda: self.value > 0, act, True)
        if blocking and timeout > 0:
            return self.s.op(self.lbl + '.acquire', lambda: self.value > 0, act, True, tmo=lambda: False)
        return self.s.op(self.lbl + '.try_acquire', _true, act, True)

    def release(self, n=1):
        def act():
            self.value += n
        self.s.op(self.lbl + '.release', _true, act, True)

    def __enter__(self):
        self.acquire()
        return self

    def __exit__(self, *a):
        self.release()


BoundedSemaphore = Semaphore


class Thread:
    """Virtual threading.Thread (sub-classable, as PlayerThread does)."""

    def __init__(self, group=None, target=None, name=None, args=(), kwargs=None, *, daemon=None):
        self._s = CUR
        self._target = target
        self._args = args
        self._kwargs = kwargs or {}
        self.daemon = bool(daemon)
        self._vt = self._s.add_thread(name or 'T?', self._bootstrap)
        self._vt.name = name or f'T{self._vt.id}'
        self._vt.observed = True
        self.name = self._vt.name
        self.uid = self._s.new_uid()
        self._started = False

    def _bootstrap(self):
        self.run()

    def run(self):
        if self._target is not None:
            self._target(*self._args, **self._kwargs)

    def start(self):
        def act():
            if self._started:
                raise RuntimeError('threads can only be started once')
            self._started = True
            self._s.make_runnable(self._vt)
        self._s.op(f'thr{self._vt.id}.start', _true, act, True)

    def is_alive(self):
        return self._s.op(f'thr{self._vt.id}.is_alive', _true,
                          lambda: self._started and self._vt.state == 'run', True)

    def join(self, timeout=None):
        if timeout is None:
            self._s.op(f'thr{self._vt.id}.join', lambda: self._vt.state != 'run', _true, True)
        else:
            self._s.op(f'thr{self._vt.id}.join', lambda: self._vt.state != 'run', _true, True, tmo=_true)

    @property
    def ident(self):
        return self._vt.id

    def getName(self):
        return self.name

    def setName(self, n):
        self.name = n

    def isDaemon(self):
        return self.daemon

    def setDaemon(self, d):
        self.daemon = d


def current_thread():
    class _Cur:
        name = CUR.current.name if CUR and CUR.current else 'MainThread'
        ident = CUR.current.id if CUR and CUR.current else 0
        daemon = False

        def is_alive(self):
            return True
    return _Cur()


def get_ident():
    return CUR.current.id if CUR and CUR.current else 0


# ------------------------------------------------------------------------------------------------------------------
# queue

class Empty(Exception):
    pass


class Full(Exception):
    pass


POLLED: set = set()      # canonical labels of queues that were ever asked without blocking (sticky for the life of the process)


@late_bindable
class Queue:
    def __init__(self, maxsize=0):
        self.s = CUR
        self.uid = self.s.new_uid(self)
        self.maxsize = maxsize
        self.q: collections.deque = collections.deque()
        self.lbl = f'q{self.uid}'
        self.producer = None
        self.consumer = None
        self.shared = False          # demoted to 'visible' when a second producer/consumer shows up
        self.unfinished = 0

    def key(self):
        return ('q', tuple(_h(x) for x in self.q))

    def _role(self, attr):
        me = self.s.current
        who = getattr(self, attr)
        if who is None:
            setattr(self, attr, me)
        elif who is not me and not self.shared:
            self.shared = True
            self.s.notes.append(f'{self.lbl}: second {attr} {me.name} (first {who.name}); channel demoted to visible')

    def put(self, item, block=True, timeout=None):
        self._role('producer')

        def act():
            if self.maxsize > 0 and len(self.q) >= self.maxsize:
                raise Full()
            self.q.append(item)
            self.unfinished += 1
        if self.maxsize > 0 and block and timeout is None:
            self.s.op(self.lbl + '.put', lambda: len(self.q) < self.maxsize, act, True, note=_h(item))
        elif self.maxsize > 0 and block and timeout:
            def full():
                raise Full()
            self.s.op(self.lbl + '.put', lambda: len(self.q) < self.maxsize, act, True, note=_h(item), tmo=full)
        else:
            self.s.op(self.lbl + '.put', _true, act, self.shared or self.maxsize > 0 or self.lbl in POLLED, note=_h(item))

    def put_nowait(self, item):
        self.put(item, block=False)

    def get(self, block=True, timeout=None):
        self._role('consumer')
        if block and timeout is None:
            # a bounded queue couples its two ends (whether a put finds room depends on how far the consumer has come): its gets are
            # scheduling points, so that a consumer can be held back while the producer runs ahead
            return self.s.op(self.lbl + '.get', lambda: len(self.q) > 0, self.q.popleft, self.shared or self.maxsize > 0)
        if block and timeout:
            def empty():
                raise Empty()
            return self.s.op(self.lbl + '.get', lambda: len(self.q) > 0, self.q.popleft, True, tmo=empty)

        def act():
            if not self.q:
                raise Empty()
            return self.q.popleft()
        self._polled()
        return self.s.op(self.lbl + '.get_nowait', _true, act, True)

    def _polled(self):
        # the answer of a non-blocking question depends on its order with the producer's puts: they stop being 'safe' operations
        if self.lbl not in POLLED:
            POLLED.add(self.lbl)
            self.s.notes.append(f'{self.lbl}: asked without blocking; its puts are scheduling points from now on')

    def get_nowait(self):
        return self.get(block=False)

    def empty(self):
        self._polled()
        return self.s.op(self.lbl + '.empty', _true, lambda: not self.q, True)

    def qsize(self):
        self._polled()
        return self.s.op(self.lbl + '.qsize', _true, lambda: len(self.q), True)

    def full(self):
        self._polled()
        return self.s.op(self.lbl + '.full', _true, lambda: 0 < self.maxsize <= len(self.q), True)

    def task_done(self):
        self.unfinished -= 1

    def join(self):
        self.s.op(self.lbl + '.join', lambda: self.unfinished <= 0, _true, True)


SimpleQueue = Queue


# ------------------------------------------------------------------------------------------------------------------
# socket

class Net:
    def __init__(self, sched):
        self.s = sched
        self.listeners: Dict[Any, 'VSocket'] = {}
        self.connections: List['VSocket'] = []
        # 'crlf': every chunk that is sent arrives in pieces - a read never crosses the boundary between a CR and the LF that follows it,
        # nor the end of a sent chunk (TCP may segment a stream anywhere; this is the segmentation that matters for CR LF framing)
        self.fragment: Optional[str] = None


class timeout(OSError):  # noqa: N801
    pass


AF_INET, SOCK_STREAM, SOL_SOCKET, SO_REUSEADDR, SHUT_RDWR, SHUT_RD, SHUT_WR, IPPROTO_TCP, TCP_NODELAY = \
    2, 1, 1, 2, 2, 0, 1, 6, 1


@late_bindable
class VSocket:
    def __init__(self, family=AF_INET, type=SOCK_STREAM, proto=0, fileno=None):  # noqa: A002
        self.s = CUR
        self.uid = self.s.new_uid(self)
        self.lbl = f'sock{self.uid}'
        self.addr = None
        self.listening = False
        self.backlog: collections.deque = collections.deque()
        self.rx = bytearray()
        self.cuts: collections.deque = collections.deque()      # lengths of the pieces in which rx will be delivered (fragment mode)
        self.peer: Optional['VSocket'] = None
        self.closed = False
        self.close_requested = False
        self.io_refs = 0
        self.wr_closed = False
        self.tx_total = 0
        self.rx_total = 0
        self.sent_after_peer_close = 0
        self.tmo = None
        self.reader = None
        self.writer = None
        self.tag = None               # set by the harness (e.g. seat of the client)

    def key(self):
        return ('sock', bytes(self.rx), self.closed, self.wr_closed, self.listening, len(self.backlog))

    # -- server side
    def bind(self, addr):
        self.addr = tuple(addr)

    def listen(self, n=0):
        def act():
            self.listening = True
            self.s.net.listeners[self.addr] = self
        self.s.op(self.lbl + '.listen', _true, act, False)

    def accept(self):
        def act():
            c = self.backlog.popleft()
            return c, ('127.0.0.1', 40000 + _num(c.uid))
        if self.tmo is None:
            return self.s.op(self.lbl + '.accept', lambda: len(self.backlog) > 0 or self.closed, self._chk(act), False)

        if self.tmo:
            def gave_up():
                raise timeout('timed out')
            return self.s.op(self.lbl + '.accept', lambda: len(self.backlog) > 0 or self.closed, self._chk(act), True, tmo=gave_up)

        def act_t():
            if not self.backlog:
                raise BlockingIOError(11, 'Resource temporarily unavailable')
            return act()
        return self.s.op(self.lbl + '.accept_nowait', _true, act_t, True)

    def _chk(self, f):
        def g():
            if self.closed:
                raise OSError(9, 'Bad file descriptor')
            return f()
        return g

    # -- client side
    def connect(self, addr):
        addr = tuple(addr)

        def ok():
            # enabled once a listener exists: either it still listens (connection queued) or it has been closed (refused)
            return self.s.net.listeners.get(addr) is not None

        def act():
            l = self.s.net.listeners[addr]
            if l.closed or not l.listening:
                raise ConnectionRefusedError(111, 'Connection refused')
            other = VSocket()
            other.peer, self.peer = self, other
            other.tag = self.tag
            l.backlog.append(other)
            self.s.net.connections.append(other)
        self.s.op(self.lbl + '.connect', ok, act, True)

    # -- data
    def sendall(self, data):
        data = bytes(data)

        def act():
            p = self.peer
            if p is None:
                raise OSError(107, 'Transport endpoint is not connected')
            if self.wr_closed:
                raise OSError(32, 'Broken pipe')
            self.tx_total += len(data)
            if p.closed:
                self.sent_after_peer_close += len(data)
            else:
                p.rx.extend(data)
                if self.s.net.fragment == 'crlf':
                    start = 0
                    for i in range(len(data) - 1):
                        if data[i:i + 2] == b'\r\n':
                            p.cuts.append(i + 1 - start)
                            start = i + 1
                    if len(data) > start:
                        p.cuts.append(len(data) - start)
        self.s.op(self.lbl + '.send', _true, self._chk(act), False)

    def send(self, data):
        self.sendall(data)
        return len(data)

    def recv(self, n, flags=0):
        def ok():
            return len(self.rx) > 0 or self.closed or self.peer is None or self.peer.closed or self.peer.wr_closed

        def act():
            if self.peer is None:
                raise OSError(107, 'Transport endpoint is not connected')
            m = n
            if self.cuts:
                m = min(n, self.cuts[0])
                self.cuts[0] -= m
                if self.cuts[0] == 0:
                    self.cuts.popleft()
            out = bytes(self.rx[:m])
            del self.rx[:m]
            self.rx_total += len(out)
            return out
        if self.tmo is None:
            return self.s.op(self.lbl + '.recv', ok, self._chk(act), False)

        if self.tmo:
            def gave_up():
                raise timeout('timed out')
            return self.s.op(self.lbl + '.recv', ok, self._chk(act), True, tmo=gave_up)

        def act_t():
            if not ok():
                raise BlockingIOError(11, 'Resource temporarily unavailable')
            return self._chk(act)()
        return self.s.op(self.lbl + '.recv_nowait', _true, act_t, True)

    def close(self):
        def act():
            # CPython: while file objects made by makefile() are alive the descriptor stays open (no end-of-stream for the peer yet)
            self.close_requested = True
            if self.io_refs > 0:
                return
            self.closed = True
            if self.listening:
                self.listening = False
        if self.s.aborting:
            self.closed = True
            return
        self.s.op(self.lbl + '.close', _true, act, False)

    def makefile(self, mode='r', buffering=None, *, encoding=None, errors=None, newline=None):
        self.io_refs += 1
        return _SockFile(self, mode, encoding or 'utf-8', newline)

    def _decref_io(self):
        self.io_refs -= 1
        if self.io_refs <= 0 and self.close_requested and not self.closed:
            def act():
                self.closed = True
            self.s.op(self.lbl + '.close(deferred)', _true, act, False)

    def shutdown(self, how):
        # SHUT_WR: the peer sees end-of-stream once it has read what was sent, this end can still receive; SHUT_RD / SHUT_RDWR
        # are modelled as a full close of this end
        if how == SHUT_WR:
            def act():
                self.wr_closed = True
            self.s.op(self.lbl + '.shutdown_wr', _true, act, False)
        else:
            self.close()

    def settimeout(self, t):
        self.tmo = t

    def gettimeout(self):
        return self.tmo

    def setblocking(self, flag):
        self.tmo = None if flag else 0.0

    def setsockopt(self, *a):
        pass

    def getsockname(self):
        return self.addr or ('127.0.0.1', 0)

    def getpeername(self):
        return ('127.0.0.1', 0)

    def fileno(self):
        return 1000 + _num(self.uid)

    def __enter__(self):
        return self

    def __exit__(self, *a):
        self.close()


class _SockFile:
    """File object over a virtual socket (socket.makefile): binary or text, line-oriented reads through recv."""

    def __init__(self, sock, mode, encoding, newline):
        self.sock, self.mode, self.encoding = sock, mode, encoding
        self.text = 'b' not in mode
        self.buf = bytearray()
        self.closed = False

    def _fill(self) -> bool:
        chunk = self.sock.recv(4096)
        if not chunk:
            return False
        self.buf.extend(chunk)
        return True

    def readline(self, limit=-1):
        while b'\n' not in self.buf:
            if not self._fill():
                break
        i = self.buf.find(b'\n')
        n = len(self.buf) if i < 0 else i + 1
        out = bytes(self.buf[:n])
        del self.buf[:n]
        return out.decode(self.encoding) if self.text else out

    def read(self, n=-1):
        while n < 0 or len(self.buf) < n:
            if not self._fill():
                break
        k = len(self.buf) if n < 0 else min(n, len(self.buf))
        out = bytes(self.buf[:k])
        del self.buf[:k]
        return out.decode(self.encoding) if self.text else out

    def __iter__(self):
        return self

    def __next__(self):
        line = self.readline()
        if not line:
            raise StopIteration
        return line

    def write(self, data):
        self.sock.sendall(data.encode(self.encoding) if isinstance(data, str) else data)
        return len(data)

    def flush(self):
        pass

    def close(self):
        if not self.closed:
            self.closed = True
            self.sock._decref_io()

    def __enter__(self):
        return self

    def __exit__(self, *a):
        self.close()


# ------------------------------------------------------------------------------------------------------------------
# time

def sleep(_seconds):
    return None


def _now():
    s = CUR
    if s is None:
        return 0.0
    s.clock += 0.001
    return s.clock


# ------------------------------------------------------------------------------------------------------------------
# module objects

def _module(name, real, **attrs):
    m = types.ModuleType(name)
    m.__dict__.update(attrs)

    def __getattr__(attr):
        if attr.startswith('__'):
            raise AttributeError(attr)
        FALLTHROUGH.add(f'{name}.{attr}')
        return getattr(real, attr)
    m.__getattr__ = __getattr__
    return m


def build_modules():
    import queue as _rq
    import socket as _rs
    import time as _rtime
    vthreading = _module('threading', _rt, Event=Event, Thread=Thread, Lock=Lock, RLock=RLock, Condition=Condition,
                         Semaphore=Semaphore, BoundedSemaphore=BoundedSemaphore, Barrier=Barrier,
                         BrokenBarrierError=BrokenBarrierError, current_thread=current_thread, get_ident=get_ident,
                         main_thread=current_thread)
    vqueue = _module('queue', _rq, Queue=Queue, SimpleQueue=SimpleQueue, Empty=Empty, Full=Full)
    vsocket = _module('socket', _rs, socket=VSocket, timeout=timeout, error=OSError, AF_INET=AF_INET,
                      SOCK_STREAM=SOCK_STREAM, SOL_SOCKET=SOL_SOCKET, SO_REUSEADDR=SO_REUSEADDR, SHUT_RDWR=SHUT_RDWR,
                      SHUT_RD=SHUT_RD, SHUT_WR=SHUT_WR, IPPROTO_TCP=IPPROTO_TCP, TCP_NODELAY=TCP_NODELAY)
    vtime = _module('time', _rtime, sleep=sleep, time=_now, monotonic=_now, perf_counter=_now)
    return {'threading': vthreading, 'queue': vqueue, 'socket': vsocket, 'time': vtime}


# names that may be looked up on the real modules without consequences for soundness (constants, exception types)
FALLTHROUGH_OK = {'socket.AF_INET6', 'socket.gaierror', 'socket.herror', 'socket.SO_KEEPALIVE', 'time.strftime',
                  'time.localtime', 'time.gmtime', 'time.struct_time', 'threading.local', 'threading.TIMEOUT_MAX',
                  'time.ctime', 'time.asctime', 'socket.gethostname', 'socket.SOMAXCONN'}
