"""Closing the system with the BUNDLED Client (C11 over the protocol): real Server.run + PlayerThread.run + four real
Client.run under the virtual primitives; bidding / playing policies are harness objects; recording subclasses of the state
machines capture what both ends hold after every play."""
from __future__ import annotations

import pathlib
from typing import Any, Callable, Dict, List, Optional

from bridge_env import Bid, Pair, Player

from .. import adapt
from ..ref import protocol as P
from . import prims, world
from .session import ADDR, OUT, board_settings

SEATS = 'NESW'


def view_of(o) -> tuple:
    from ..props.play import public_view
    return public_view(o)


class ScriptedBidding:
    """BiddingSystem whose calls are read from the scripted auctions (one per board)."""

    def __init__(self, auctions: List[List[str]]):
        self.auctions = auctions
        self.client = None

    def bid(self, hand, env):
        a = self.auctions[self.client.board_num - 1]
        return adapt.call_obj(a[len(env.bid_history)])


class PolicyPlay:
    """PlayingSystem: 'lowest' / 'highest' of the playable cards, or 'indexed' with a list of choice indices."""

    def __init__(self, kind: str, indices: Optional[List[int]] = None, log: Optional[list] = None):
        self.kind, self.indices, self.n, self.log = kind, indices or [], 0, log

    def play(self, hand, env):
        cs = sorted(env.current_available_cards(hand))
        if self.kind == 'lowest':
            return cs[0]
        if self.kind == 'highest':
            return cs[-1]
        i = self.indices[self.n] if self.n < len(self.indices) else 0
        self.n += 1
        if self.log is not None:
            self.log.append(len(cs))
        return cs[i % len(cs)]


def bundled_setup(plans: List[P.BoardPlan], teams: Dict[str, str], play_kind: str = 'lowest', bidding: str = 'scripted',
                  random_indices: Optional[Dict[str, List[int]]] = None, fragment: Optional[str] = None) -> Callable[[prims.Sched], Callable]:
    mods = world.load()
    srv, cli, bsm, psm = mods['server'], mods['client'], mods['bs'], mods['ps']
    from bridge_env.bidding_phase import BiddingPhase as RealBP
    from bridge_env.playing_phase import ObservedPlayingPhase as RealOPP, PlayingPhaseWithHands as RealPWH

    def setup(s: prims.Sched):
        files: Dict[str, world.MemFile] = {}
        srv.open = world.make_open(files)
        world.install_player_thread(mods)
        s.net.fragment = fragment
        rec: Dict[str, Any] = {'server_bp': [], 'server_pp': [], 'client_bp': {p: [] for p in SEATS}, 'client_pp': {p: [] for p in SEATS},
                               'views': {}, 'choices': {p: [] for p in SEATS}}
        w: Dict[str, Any] = {'returned': False, 'client_done': {}, 'client_exc': {}}

        def recording(base, bucket, tag):
            class R(base):  # type: ignore
                def __init__(self, *a, **k):
                    super().__init__(*a, **k)
                    bucket.append(self)
                    self._views = []
                    rec['views'][(tag, len(bucket))] = self._views

                def play_card_by_player(self, card, player):
                    super().play_card_by_player(card, player)
                    self._views.append(view_of(self))
            R.__name__ = base.__name__
            return R

        class SrvBP(RealBP):
            def __init__(self, *a, **k):
                super().__init__(*a, **k)
                rec['server_bp'].append(self)
        srv.BiddingPhase = SrvBP
        srv.PlayingPhaseWithHands = recording(RealPWH, rec['server_pp'], 'server')
        bs = board_settings(plans)

        opener = srv.open

        class HarnessPath(type(pathlib.Path())):
            def open(self, mode='r', *a, **k):
                return opener(str(self), mode)

        def main_body():
            with srv.Server(ip_address=ADDR[0], port=ADDR[1], output_file_path=HarnessPath(OUT), board_settings=bs) as server:
                server.run()
            w['returned'] = True
        t = s.add_thread('main', main_body, tid=0)
        s.make_runnable(t)

        def client_body(p: str):
            def body():
                # per-seat recording classes: the client module looks the names up at call time, so they are swapped in while
                # this (single running) virtual thread constructs them - construction happens inside bidding_phase/playing_phase
                if bidding == 'scripted':
                    bsys = ScriptedBidding([pl.auction for pl in plans])
                elif bidding == 'weak':
                    bsys = bsm.WeakBid()
                else:
                    bsys = bsm.AlwaysPass()
                if play_kind == 'random':
                    psys = psm.RandomPlay()
                else:
                    psys = PolicyPlay(play_kind, (random_indices or {}).get(p), rec['choices'][p])
                team = teams['NS'] if p in 'NS' else teams['EW']
                try:
                    with ClientFor[p](player=Player[p], team_name=team, bidding_system=bsys, playing_system=psys, ip_address=ADDR[0], port=ADDR[1]) as client:
                        if hasattr(bsys, 'client'):
                            bsys.client = client
                        w.setdefault('clients', {})[p] = client
                        client.run()
                    w['client_done'][p] = True
                except prims.Abort:
                    raise
                except BaseException as e:  # noqa
                    w['client_exc'][p] = e
                    raise
            return body

        # one Client subclass per seat whose bidding_phase / playing_phase bind the recording classes for that seat
        ClientFor = {}
        for p in SEATS:
            def mk(p=p):
                class CBP(RealBP):
                    def __init__(self, *a, **k):
                        super().__init__(*a, **k)
                        rec['client_bp'][p].append(self)
                ROPP = recording(RealOPP, rec['client_pp'][p], f'client-{p}')

                class C(cli.Client):  # type: ignore
                    def bidding_phase(self):
                        cli.BiddingPhase = CBP
                        return super().bidding_phase()

                    def playing_phase(self, contract):
                        cli.ObservedPlayingPhase = ROPP
                        return super().playing_phase(contract)
                return C
            ClientFor[p] = mk()
        if play_kind == 'random':
            psm.random = world.Chooser(lambda seq: seq[0])
        for i, p in enumerate(SEATS):
            ct = s.add_thread(f'cl-{p}', client_body(p), tid=100 + i)
            s.make_runnable(ct)

        def collect(s2: prims.Sched):
            f = files.get(OUT)

            def bp_info(o):
                try:
                    con = o.contract()
                except Exception as e:  # noqa
                    con = repr(e)
                return {'dealer': o.dealer.name, 'vul': adapt.VUL_NAME.get(o.vul), 'history': [str(b) for b in o.bid_history], 'done': o.has_done(),
                        'contract': None if con is None or isinstance(con, str) else (str(con), adapt.doubling_status(con), adapt.VUL_NAME.get(con.vul),
                                                                                      con.declarer.name if con.declarer else None)}
            return {'log_text': f.text if f else None, 'log_closed': f.closed if f else None, 'returned': w['returned'],
                    'client_done': dict(w['client_done']), 'client_exc': {k: repr(v) for k, v in w['client_exc'].items()},
                    'server_bp': [bp_info(o) for o in rec['server_bp']], 'client_bp': {p: [bp_info(o) for o in v] for p, v in rec['client_bp'].items()},
                    'server_views': [list(o._views) for o in rec['server_pp']],
                    'client_views': {p: [list(o._views) for o in v] for p, v in rec['client_pp'].items()},
                    'choices': {p: list(v) for p, v in rec['choices'].items()},
                    'transcripts': {}, 'files': {}}
        return collect
    return setup
