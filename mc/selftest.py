"""Run by setup.sh: sanity of the machinery itself (reference models vs. a third witness; later: primitive conformance)."""
import sys


def main():
    from .ref import score as R
    # third witness: a few well-known duplicate scores
    known = [((4, 'S', 0, False, 10), 420), ((4, 'S', 0, True, 10), 620), ((3, 'NT', 0, False, 9), 400),
             ((6, 'NT', 0, True, 12), 1440), ((7, 'NT', 2, True, 13), 2980), ((1, 'C', 1, False, 7), 140),
             ((2, 'H', 1, False, 8), 470), ((3, 'NT', 1, True, 5), -1100), ((7, 'NT', 2, True, 0), -7600),
             ((1, 'NT', 2, False, 9), 960), ((5, 'D', 0, False, 12), 420), ((2, 'C', 0, False, 8), 90)]
    for args, exp in known:
        got = R.duplicate_score(*args)
        assert got == exp, (args, got, exp)
    assert [R.imps(x) for x in (0, 10, 19, 20, 45, 50, 420, 430, 3990, 4000, 10 ** 9, -20, -4000)] == \
           [0, 0, 0, 1, 1, 2, 9, 10, 23, 24, 24, -1, -24]
    try:
        from .sched import conformance
    except ImportError:
        conformance = None
    if conformance is not None:
        conformance.main()
    print('selftest ok')


if __name__ == '__main__':
    sys.exit(main())
