"""./check <ID> [--tier quick|thorough] [--replay file]

exit 0: property held on everything explored (KNOWN-FINDING lines possible)
exit 1: at least one violation not listed in known_findings.json ("VIOLATION property=<id> replay=<path>")
exit 2: internal error of the machinery (never a property verdict)
"""
from __future__ import annotations

import argparse
import importlib
import json
import os
import sys
import time
import traceback

from . import core


ENGINE_B = {'C08', 'C09', 'C10', 'C11', 'C13', 'C20'}


def main(argv=None) -> int:
    ap = argparse.ArgumentParser()
    ap.add_argument('pid')
    ap.add_argument('--tier', default=os.environ.get('VERIF_TIER', 'quick'), choices=['quick', 'thorough'])
    ap.add_argument('--replay', default=None)
    ap.add_argument('--workers', type=int, default=None)
    args = ap.parse_args(argv)
    pid = args.pid.upper()
    try:
        seed = int(os.environ.get('VERIF_SEED', '0'))
    except ValueError:
        seed = 0
    try:
        mod = importlib.import_module(f'mc.props.{pid}')
    except ModuleNotFoundError as e:
        print(f'INTERNAL: no check for {pid}: {e}', file=sys.stderr)
        return 2

    if args.replay:
        with open(args.replay) as f:
            doc = json.load(f)
        try:
            ok, detail = mod.replay(doc['replay'])
        except Exception:
            traceback.print_exc()
            return 2
        print(f'replay of {args.replay}: ' + ('REPRODUCED' if ok else 'not reproduced'))
        print(detail)
        if ok:
            print(f'VIOLATION property={pid} replay={args.replay}')
        return 1 if ok else 0

    t0 = time.time()
    _arm_watchdog(pid, args.tier)
    try:
        if pid in ENGINE_B:
            # the modelled primitives must agree with CPython's before anything explored with them is believed
            from .sched import conformance
            conformance.main()
        res: core.Result = mod.run(args.tier, seed, args.workers or core.ncpu())
    except core_internal_errors() as e:
        text = ''.join(traceback.format_exception(type(e), e, e.__traceback__))
        lib_frames = [l.strip() for l in text.splitlines() if '/bridge_env/' in l and 'File "' in l]
        from .sched.prims import InternalError
        if lib_frames and not isinstance(e, InternalError):
            # an exception raised INSIDE the library escaped from an enumeration that runs clean on the unchanged tree: the library
            # crashed on an input / history of the stated domain - that is a property violation, not a harness error
            v = core.Violation(f'exception-in-library:{type(e).__name__}', f'{type(e).__name__}: {e} raised inside the library at {lib_frames[-1]}', {'kind': 'crash', 'traceback': text[-3000:]})
            core.clear_replays(pid)
            path = core.write_replay(pid, 0, v)
            print(f'  {v.key}: {v.message}'[:600])
            print(f'VIOLATION property={pid} replay={path}')
            core.write_evidence(pid, args.tier, seed, core.Result({'evaluations': 1, 'distinct_nontrivial': 2, 'states': 1, 'transitions': 1, 'traces_validated_against_impl': 1,
                                                                 'rule': 'the enumeration was cut short by an exception raised inside the library', 'samples': [v.message], 'explanation': 'aborted run'},
                                                                [v], [], level='other'), time.time() - t0, 1)
            return 1
        traceback.print_exc()
        print(f'INTERNAL: {type(e).__name__}: {e}', file=sys.stderr)
        return 2
    wall = time.time() - t0

    findings = core.load_findings()
    core.clear_replays(pid)
    new, known = [], []
    for v in res.violations:
        f = core.match_finding(pid, v.key, findings)
        (known if f else new).append((v, f))
    seen_known = set()
    for v, f in known:
        if f['key'] in seen_known:
            continue
        seen_known.add(f['key'])
        print(f"KNOWN-FINDING: property={pid} {f.get('what', v.message)}")
    if len(new) > 12:
        print(f'  ({len(new)} distinct violation keys; the first 12 are reported)')
        new = new[:12]
    for i, (v, _) in enumerate(new):
        path = core.write_replay(pid, i, v)
        print(f'  {v.key}: {v.message}'[:600])
        print(f'VIOLATION property={pid} replay={path}')
    core.write_evidence(pid, args.tier, seed, res, wall, len(new))
    cov = res.coverage
    print(f"{pid} tier={args.tier} seed={seed} wall={wall:.1f}s states={cov.get('states')} "
          f"transitions={cov.get('transitions')} evaluations={cov.get('evaluations')} "
          f"distinct={cov.get('distinct_nontrivial')} exhaustive={cov.get('exhaustive')} "
          f"violations={len(new)} known={len(seen_known)}")
    return 1 if new else 0


def _arm_watchdog(pid: str, tier: str):
    """A change to the code under test can make it loop for ever inside an enumeration.  The check must not hang with it: after a
    generous wall-clock budget the whole process group (the check and its worker pool) is stopped with exit status 2 - an internal
    error, never a verdict."""
    import signal
    import threading
    budget = float(os.environ.get('VERIF_BUDGET_S') or (1800 if tier == 'quick' else 4 * 3600))
    try:
        os.setpgrp()
    except OSError:
        pass

    def fire():
        sys.stderr.write(f'INTERNAL: {pid} exceeded its wall-clock budget of {budget:.0f} s (a non-terminating call in the code under test, or an overloaded machine); stopping\n')
        sys.stderr.flush()
        try:
            signal.signal(signal.SIGTERM, signal.SIG_IGN)
            os.killpg(os.getpgrp(), signal.SIGTERM)
        except Exception:  # noqa
            pass
        os._exit(2)
    t = threading.Timer(budget, fire)
    t.daemon = True
    t.start()


def core_internal_errors():
    return (Exception,)


if __name__ == '__main__':
    sys.exit(main())
